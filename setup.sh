#!/bin/bash
# Builds the monitor binary from files on disk only (offline).
set -e
ROOT="$(cd "$(dirname "$0")" && pwd)"
export GOFLAGS=-mod=mod GOPROXY=off GOSUMDB=off GOTOOLCHAIN=local
mkdir -p "$ROOT/bin" "$ROOT/work" "$ROOT/evidence"
cd "$ROOT/harness"
cp /repo/go.sum go.sum
go build -tags verif -o "$ROOT/bin/vmon" ./cmd/vmon
echo "setup ok: $("$ROOT/bin/vmon" list | tr '\n' ' ')"
