// Package gen holds the deterministic workload generators. Every generated
// operand is admitted only if the exact validity oracle accepts it, so no
// check depends on the library's own Validate.
package gen

import (
	"encoding/binary"
	"hash/fnv"
	"math"
	"sort"

	"github.com/peterstace/simplefeatures/geom"

	"verif/exact"
	"verif/run"
)

// Cfg describes the coordinate domain shared by the operands of one case.
type Cfg struct {
	Side   int // lattice indices are in [0,Side]
	OffX   int // integer translation
	OffY   int
	FlipX  bool // axis reflections
	FlipY  bool
	GP     bool // general position: every lattice point is moved by a hash-derived fraction
	GPSalt uint64
	Scale  int  // lattice step (1 default)
	Big    bool // three times as many vertices per ring / line (stress stream)
	// CenterOnP: ConcurrentPair translates the lattice so that its first concurrency point lies within one
	// unit of the origin (every segment through it then starts farther from the origin than the crossing, and
	// the rounding of the computed intersection parameter survives in the crossing's coordinates)
	CenterOnP bool
}

type G struct {
	R   *run.Rng
	Cfg Cfg
}

// Domain names used by the checks.
const (
	DSmall = "D-small"
	DLarge = "D-large"
	DGP    = "D-gp"
)

// NewCfg draws a domain configuration.
func NewCfg(r *run.Rng, domain string) Cfg {
	c := Cfg{Scale: 1}
	switch domain {
	case DSmall:
		c.Side = r.Range(3, 8)
		if r.Chance(1, 2) {
			c.OffX, c.OffY = r.Range(-1000, 1000), r.Range(-1000, 1000)
		}
		c.FlipX, c.FlipY = r.Bool(), r.Bool()
	case DLarge:
		c.Side = 2048
		c.OffX, c.OffY = -1024, -1024
	case DGP:
		switch r.Intn(5) {
		case 0, 1:
			c.Side = 12
		case 2, 3:
			c.Side = 1000
			c.OffX, c.OffY = -500, -500
		default: // a small extent far from the origin (projected-coordinate magnitudes)
			c.Side = 12
			c.Scale = []int{1, 10, 100}[r.Intn(3)]
			off := []int{100000, 1350000}[r.Intn(2)]
			c.OffX, c.OffY = off+r.Range(-500, 500), -off/3+r.Range(-500, 500)
		}
		c.GP = true
		c.GPSalt = r.Uint64()
	}
	return c
}

func (c Cfg) frac(ix, iy int, which byte) float64 {
	h := fnv.New64a()
	var b [25]byte
	binary.LittleEndian.PutUint64(b[0:], uint64(int64(ix)))
	binary.LittleEndian.PutUint64(b[8:], uint64(int64(iy)))
	binary.LittleEndian.PutUint64(b[16:], c.GPSalt)
	b[24] = which
	h.Write(b[:])
	x := h.Sum64()
	// splitmix finaliser for better bit diffusion
	x ^= x >> 30
	x *= 0xbf58476d1ce4e5b9
	x ^= x >> 27
	x *= 0x94d049bb133111eb
	x ^= x >> 31
	return float64(x>>11) / (1 << 53)
}

// XY maps lattice indices to final coordinates.
func (c Cfg) XY(ix, iy int) (float64, float64) {
	x, y := ix*c.Scale, iy*c.Scale
	if c.FlipX {
		x = c.Side*c.Scale - x
	}
	if c.FlipY {
		y = c.Side*c.Scale - y
	}
	fx, fy := float64(x+c.OffX), float64(y+c.OffY)
	if c.GP {
		fx += c.frac(ix, iy, 0)
		fy += c.frac(ix, iy, 1)
	}
	return fx, fy
}

type ip struct{ x, y int }

// sz draws a vertex count; Big configurations get up to three times as many.
func (g *G) sz(lo, hi int) int {
	if g.Cfg.Big {
		hi *= 3
	}
	return g.R.Range(lo, hi)
}

func (g *G) rp() ip { return ip{g.R.Intn(g.Cfg.Side + 1), g.R.Intn(g.Cfg.Side + 1)} }

// near picks a lattice point close to p (for local shapes on large lattices).
func (g *G) near(p ip, rad int) ip {
	q := ip{p.x + g.R.Range(-rad, rad), p.y + g.R.Range(-rad, rad)}
	if q.x < 0 {
		q.x = 0
	}
	if q.y < 0 {
		q.y = 0
	}
	if q.x > g.Cfg.Side {
		q.x = g.Cfg.Side
	}
	if q.y > g.Cfg.Side {
		q.y = g.Cfg.Side
	}
	return q
}

func (g *G) seq(ps []ip) geom.Sequence {
	fs := make([]float64, 0, 2*len(ps))
	for _, p := range ps {
		x, y := g.Cfg.XY(p.x, p.y)
		fs = append(fs, x, y)
	}
	return geom.NewSequence(fs, geom.DimXY)
}

func (g *G) line(ps []ip) geom.LineString { return geom.NewLineString(g.seq(ps)) }

func (g *G) point(p ip) geom.Point {
	x, y := g.Cfg.XY(p.x, p.y)
	return geom.NewPointXY(x, y)
}

// pickPts returns n lattice points, clustered on large lattices so shapes interact.
func (g *G) pickPts(n int) []ip {
	ps := make([]ip, n)
	if g.Cfg.Side > 16 && g.R.Chance(2, 3) {
		c := g.rp()
		rad := []int{2, 4, 8, 50, 400}[g.R.Intn(5)]
		for i := range ps {
			ps[i] = g.near(c, rad)
		}
		return ps
	}
	for i := range ps {
		ps[i] = g.rp()
	}
	return ps
}

func cross(o, a, b ip) int { return (a.x-o.x)*(b.y-o.y) - (a.y-o.y)*(b.x-o.x) }

// hullOf is an integer monotone chain (strict: collinear points dropped).
func hullOf(ps []ip) []ip {
	p := append([]ip(nil), ps...)
	sort.Slice(p, func(i, j int) bool {
		if p[i].x != p[j].x {
			return p[i].x < p[j].x
		}
		return p[i].y < p[j].y
	})
	var u []ip
	for _, q := range p {
		if len(u) == 0 || u[len(u)-1] != q {
			u = append(u, q)
		}
	}
	if len(u) < 3 {
		return u
	}
	var h []ip
	for _, q := range u {
		for len(h) >= 2 && cross(h[len(h)-2], h[len(h)-1], q) <= 0 {
			h = h[:len(h)-1]
		}
		h = append(h, q)
	}
	lower := len(h) + 1
	for i := len(u) - 2; i >= 0; i-- {
		q := u[i]
		for len(h) >= lower && cross(h[len(h)-2], h[len(h)-1], q) <= 0 {
			h = h[:len(h)-1]
		}
		h = append(h, q)
	}
	return h[:len(h)-1]
}

func closeRing(ps []ip) []ip { return append(append([]ip(nil), ps...), ps[0]) }

// ringConvex returns a convex lattice ring (closed) or nil.
func (g *G) ringConvex(n int) []ip {
	h := hullOf(g.pickPts(n))
	if len(h) < 3 {
		return nil
	}
	if g.R.Bool() { // random direction
		for i, j := 0, len(h)-1; i < j; i, j = i+1, j-1 {
			h[i], h[j] = h[j], h[i]
		}
	}
	k := g.R.Intn(len(h)) // random start
	h = append(h[k:], h[:k]...)
	return closeRing(h)
}

// ringStar returns a star-shaped ring around an interior lattice centre.
func (g *G) ringStar(n int) []ip {
	ps := g.pickPts(n + 1)
	c := ps[0]
	var rest []ip
	seen := map[ip]bool{c: true}
	for _, p := range ps[1:] {
		if !seen[p] {
			seen[p] = true
			rest = append(rest, p)
		}
	}
	if len(rest) < 3 {
		return nil
	}
	sort.Slice(rest, func(i, j int) bool {
		a, b := rest[i], rest[j]
		aa := math.Atan2(float64(a.y-c.y), float64(a.x-c.x))
		ab := math.Atan2(float64(b.y-c.y), float64(b.x-c.x))
		if aa != ab {
			return aa < ab
		}
		da := (a.x-c.x)*(a.x-c.x) + (a.y-c.y)*(a.y-c.y)
		db := (b.x-c.x)*(b.x-c.x) + (b.y-c.y)*(b.y-c.y)
		return da < db
	})
	return closeRing(rest)
}

// cellPolygon builds a rectilinear polygon from a 4-connected set of unit
// cells with optional deleted interior cells; returns shell + holes as lattice
// rings (nil if the traced boundary does not have exactly one outer ring).
func (g *G) cellPolygon() [][]ip {
	side := g.Cfg.Side
	bx, by := 0, 0
	n := side
	if n > 7 {
		n = r7(g.R)
		bx, by = g.R.Intn(side-n+1), g.R.Intn(side-n+1)
	}
	if n < 1 {
		return nil
	}
	cells := map[ip]bool{}
	start := ip{g.R.Intn(n), g.R.Intn(n)}
	cells[start] = true
	list := []ip{start}
	target := g.R.Range(1, n*n*3/4+1)
	for tries := 0; len(list) < target && tries < 200; tries++ {
		c := list[g.R.Intn(len(list))]
		d := [4]ip{{1, 0}, {-1, 0}, {0, 1}, {0, -1}}[g.R.Intn(4)]
		q := ip{c.x + d.x, c.y + d.y}
		if q.x < 0 || q.y < 0 || q.x >= n || q.y >= n || cells[q] {
			continue
		}
		cells[q] = true
		list = append(list, q)
	}
	// optionally delete a few cells (may create holes or pinches)
	if len(list) > 5 && g.R.Bool() {
		for k := 0; k < g.R.Range(1, 3); k++ {
			delete(cells, list[g.R.Intn(len(list))])
		}
	}
	if len(cells) == 0 {
		return nil
	}
	// directed boundary edges with the cell on the left
	type edge struct{ a, b ip }
	out := map[ip][]ip{}
	add := func(a, b ip) { out[a] = append(out[a], b) }
	for c := range cells {
		if !cells[ip{c.x, c.y - 1}] {
			add(ip{c.x, c.y}, ip{c.x + 1, c.y})
		}
		if !cells[ip{c.x + 1, c.y}] {
			add(ip{c.x + 1, c.y}, ip{c.x + 1, c.y + 1})
		}
		if !cells[ip{c.x, c.y + 1}] {
			add(ip{c.x + 1, c.y + 1}, ip{c.x, c.y + 1})
		}
		if !cells[ip{c.x - 1, c.y}] {
			add(ip{c.x, c.y + 1}, ip{c.x, c.y})
		}
	}
	used := map[edge]bool{}
	var rings [][]ip
	// deterministic iteration order
	var starts []ip
	for a := range out {
		starts = append(starts, a)
	}
	sort.Slice(starts, func(i, j int) bool {
		if starts[i].x != starts[j].x {
			return starts[i].x < starts[j].x
		}
		return starts[i].y < starts[j].y
	})
	for _, s := range starts {
		for _, t := range out[s] {
			if used[edge{s, t}] {
				continue
			}
			ring := []ip{s}
			a, b := s, t
			for steps := 0; steps < 10000; steps++ {
				used[edge{a, b}] = true
				ring = append(ring, b)
				if b == s {
					break
				}
				// choose the next edge: prefer the left-most turn (hug the interior)
				var best ip
				bestScore := -10
				found := false
				for _, c := range out[b] {
					if used[edge{b, c}] {
						continue
					}
					d1 := ip{b.x - a.x, b.y - a.y}
					d2 := ip{c.x - b.x, c.y - b.y}
					cr := d1.x*d2.y - d1.y*d2.x // >0 left turn
					score := cr
					if score > bestScore {
						bestScore, best, found = score, c, true
					}
				}
				if !found {
					return nil
				}
				a, b = b, best
			}
			if ring[len(ring)-1] != s {
				return nil
			}
			rings = append(rings, ring)
		}
	}
	area2 := func(r []ip) int {
		s := 0
		for i := 0; i+1 < len(r); i++ {
			s += r[i].x*r[i+1].y - r[i+1].x*r[i].y
		}
		return s
	}
	var shell []ip
	var holes [][]ip
	for _, r := range rings {
		if area2(r) > 0 {
			if shell != nil {
				return nil
			}
			shell = r
		} else {
			holes = append(holes, r)
		}
	}
	if shell == nil {
		return nil
	}
	merge := g.R.Bool()
	fix := func(r []ip) []ip {
		for i := range r {
			r[i] = ip{r[i].x + bx, r[i].y + by}
		}
		if !merge {
			return r
		}
		// merge collinear runs (keep closure)
		core := r[:len(r)-1]
		var o []ip
		m := len(core)
		for i := 0; i < m; i++ {
			p, c, q := core[(i+m-1)%m], core[i], core[(i+1)%m]
			if cross(p, c, q) != 0 {
				o = append(o, c)
			}
		}
		if len(o) < 3 {
			return r
		}
		return closeRing(o)
	}
	res := [][]ip{fix(shell)}
	for _, h := range holes {
		res = append(res, fix(h))
	}
	return res
}

func r7(r *run.Rng) int { return r.Range(2, 7) }

func (g *G) polyFromRings(rs [][]ip) geom.Polygon {
	ls := make([]geom.LineString, len(rs))
	for i, r := range rs {
		ls[i] = g.line(r)
	}
	return geom.NewPolygon(ls)
}

func valid(x geom.Geometry) bool { return exact.ValidGeom(x).OK }

// Polygon returns a valid non-empty polygon.
func (g *G) Polygon() geom.Polygon {
	for tries := 0; tries < 60; tries++ {
		var rs [][]ip
		switch g.R.Intn(6) {
		case 0, 1:
			if r := g.ringConvex(g.sz(3, 7)); r != nil {
				rs = [][]ip{r}
			}
		case 2:
			if r := g.ringStar(g.sz(4, 8)); r != nil {
				rs = [][]ip{r}
			}
		case 3:
			rs = g.cellPolygon()
		default: // shell with explicit holes
			var shell []ip
			if g.R.Bool() {
				shell = g.ringConvex(g.sz(4, 8))
			} else {
				shell = g.ringStar(g.sz(5, 8))
			}
			if shell == nil {
				continue
			}
			rs = [][]ip{shell}
			nh := g.R.Range(1, 3)
			for h := 0; h < nh; h++ {
				hole := g.holeIn(rs)
				if hole != nil {
					cand := append(append([][]ip(nil), rs...), hole)
					if valid(g.polyFromRings(cand).AsGeometry()) {
						rs = cand
					}
				}
			}
		}
		if rs == nil {
			continue
		}
		p := g.polyFromRings(rs)
		if valid(p.AsGeometry()) {
			return p
		}
	}
	// fallback: a lattice triangle
	a := g.rp()
	b, c := ip{a.x + 1, a.y}, ip{a.x, a.y + 1}
	if a.x >= g.Cfg.Side {
		a.x--
		b.x--
		c.x--
	}
	if a.y >= g.Cfg.Side {
		a.y--
		b.y--
		c.y--
	}
	return g.polyFromRings([][]ip{{a, b, c, a}})
}

// holeIn proposes a small ring inside the shell; touching variants reuse a
// vertex of an existing ring.
func (g *G) holeIn(rs [][]ip) []ip {
	shell := rs[0]
	minx, miny, maxx, maxy := shell[0].x, shell[0].y, shell[0].x, shell[0].y
	for _, p := range shell {
		if p.x < minx {
			minx = p.x
		}
		if p.x > maxx {
			maxx = p.x
		}
		if p.y < miny {
			miny = p.y
		}
		if p.y > maxy {
			maxy = p.y
		}
	}
	n := g.R.Range(3, 4)
	ps := make([]ip, n)
	for i := range ps {
		ps[i] = ip{g.R.Range(minx, maxx), g.R.Range(miny, maxy)}
	}
	if g.R.Chance(1, 3) { // touching variant
		src := rs[g.R.Intn(len(rs))]
		ps[0] = src[g.R.Intn(len(src))]
	}
	h := hullOf(ps)
	if len(h) < 3 {
		return nil
	}
	if g.R.Bool() {
		for i, j := 0, len(h)-1; i < j; i, j = i+1, j-1 {
			h[i], h[j] = h[j], h[i]
		}
	}
	k := g.R.Intn(len(h))
	h = append(h[k:], h[:k]...)
	return closeRing(h)
}

// LineString returns a valid non-empty linestring (lattice walk).
func (g *G) LineString() geom.LineString {
	for tries := 0; tries < 50; tries++ {
		n := g.sz(2, 6)
		var ps []ip
		if g.Cfg.Side <= 16 {
			ps = g.pickPts(n)
		} else {
			ps = make([]ip, n)
			ps[0] = g.rp()
			step := []int{1, 2, 3, 20, 300}[g.R.Intn(5)]
			for i := 1; i < n; i++ {
				ps[i] = g.near(ps[i-1], step)
			}
		}
		switch g.R.Intn(8) {
		case 0:
			ps = append(ps, ps[0]) // closed
		case 1:
			k := g.R.Intn(len(ps)) // repeated consecutive vertex
			ps = append(ps[:k+1], ps[k:]...)
		case 2:
			ps = append(ps, ps[g.R.Intn(len(ps))]) // revisit
		}
		l := g.line(ps)
		if valid(l.AsGeometry()) {
			return l
		}
	}
	a := g.rp()
	b := ip{a.x + 1, a.y}
	if b.x > g.Cfg.Side {
		b.x = a.x - 1
	}
	return g.line([]ip{a, b})
}

func (g *G) Point() geom.Point { return g.point(g.pickPts(1)[0]) }

func (g *G) MultiPoint() geom.MultiPoint {
	n := g.R.Range(1, 4)
	ps := g.pickPts(n)
	pts := make([]geom.Point, n)
	for i, p := range ps {
		pts[i] = g.point(p)
	}
	if g.R.Chance(1, 6) {
		pts = append(pts, pts[0]) // duplicate
	}
	return geom.NewMultiPoint(pts)
}

func (g *G) MultiLineString() geom.MultiLineString {
	n := g.R.Range(1, 3)
	var ls []geom.LineString
	if g.R.Chance(1, 3) {
		// junction: k members ending at one lattice point
		j := g.rp()
		k := g.R.Range(2, 4)
		for i := 0; i < k; i++ {
			var o ip
			for t := 0; t < 10; t++ {
				o = g.near(j, 3)
				if o != j {
					break
				}
			}
			if o == j {
				continue
			}
			if g.R.Bool() {
				ls = append(ls, g.line([]ip{o, j}))
			} else {
				ls = append(ls, g.line([]ip{j, o}))
			}
		}
		if len(ls) > 0 {
			return geom.NewMultiLineString(ls)
		}
	}
	if g.R.Chance(1, 4) {
		// open members that chain into a closed loop: every end point is shared by an
		// even number of members, so the mod-2 boundary is empty although no member is closed
		if ring := g.ringConvex(g.R.Range(3, 6)); ring != nil && len(ring) >= 4 {
			m := len(ring) - 1 // segments
			cut1 := g.R.Range(1, m-1)
			pieces := [][]ip{ring[:cut1+1], ring[cut1:]}
			if m-cut1 >= 2 && g.R.Bool() {
				cut2 := g.R.Range(cut1+1, m-1)
				pieces = [][]ip{ring[:cut1+1], ring[cut1 : cut2+1], ring[cut2:]}
			}
			for _, pc := range pieces {
				q := append([]ip(nil), pc...)
				if g.R.Bool() {
					for i, j := 0, len(q)-1; i < j; i, j = i+1, j-1 {
						q[i], q[j] = q[j], q[i]
					}
				}
				ls = append(ls, g.line(q))
			}
			if valid(geom.NewMultiLineString(ls).AsGeometry()) {
				return geom.NewMultiLineString(ls)
			}
			ls = nil
		}
	}
	for i := 0; i < n; i++ {
		ls = append(ls, g.LineString())
	}
	return geom.NewMultiLineString(ls)
}

// islandMultiPolygon: a member with a hole and another member (an island) inside that hole, optionally
// touching the hole's ring at one vertex, in either member order; nil when the lattice is too small.
func (g *G) islandMultiPolygon() *geom.MultiPolygon {
	S := g.Cfg.Side
	if S < 5 {
		return nil
	}
	s := g.R.Range(5, 9)
	if s > S {
		s = S
	}
	o := ip{g.R.Intn(S - s + 1), g.R.Intn(S - s + 1)}
	at := func(x, y int) ip { return ip{o.x + x, o.y + y} }
	outer := []ip{at(0, 0), at(s, 0), at(s, s), at(0, s)}
	hole := []ip{at(1, 1), at(1, s-1), at(s-1, s-1), at(s-1, 1)}
	for tries := 0; tries < 20; tries++ {
		var pts []ip
		for i := g.R.Range(3, 5); i > 0; i-- {
			pts = append(pts, at(g.R.Range(2, s-2), g.R.Range(2, s-2)))
		}
		if g.R.Chance(1, 3) { // touch the hole's ring at one point
			pts[0] = at(1, g.R.Range(2, s-2))
		}
		h := hullOf(pts)
		if len(h) < 3 {
			continue
		}
		k := g.R.Intn(len(h))
		h = append(h[k:], h[:k]...)
		k = g.R.Intn(4)
		outer = append(outer[k:], outer[:k]...)
		ps := []geom.Polygon{g.polyFromRings([][]ip{closeRing(outer), closeRing(hole)}), g.polyFromRings([][]ip{closeRing(h)})}
		if g.R.Bool() {
			ps[0], ps[1] = ps[1], ps[0]
		}
		mp := geom.NewMultiPolygon(ps)
		if valid(mp.AsGeometry()) {
			return &mp
		}
	}
	return nil
}

func (g *G) MultiPolygon() geom.MultiPolygon {
	if g.R.Chance(1, 5) {
		if mp := g.islandMultiPolygon(); mp != nil {
			return *mp
		}
	}
	for tries := 0; tries < 40; tries++ {
		n := g.R.Range(2, 3)
		ps := make([]geom.Polygon, n)
		for i := range ps {
			ps[i] = g.Polygon()
		}
		mp := geom.NewMultiPolygon(ps)
		if valid(mp.AsGeometry()) {
			return mp
		}
	}
	return geom.NewMultiPolygon([]geom.Polygon{g.Polygon()})
}

// Typed returns a valid non-empty geometry of the requested type; collections
// have 1-3 members of random types (overlap allowed) nested up to depth.
func (g *G) Typed(t geom.GeometryType, depth int) geom.Geometry {
	switch t {
	case geom.TypePoint:
		return g.Point().AsGeometry()
	case geom.TypeMultiPoint:
		return g.MultiPoint().AsGeometry()
	case geom.TypeLineString:
		return g.LineString().AsGeometry()
	case geom.TypeMultiLineString:
		return g.MultiLineString().AsGeometry()
	case geom.TypePolygon:
		return g.Polygon().AsGeometry()
	case geom.TypeMultiPolygon:
		return g.MultiPolygon().AsGeometry()
	default:
		n := g.R.Range(1, 3)
		ms := make([]geom.Geometry, n)
		for i := range ms {
			tt := AllTypes[g.R.Intn(len(AllTypes))]
			if tt == geom.TypeGeometryCollection && depth <= 0 {
				tt = geom.TypePolygon
			}
			ms[i] = g.Typed(tt, depth-1)
		}
		return geom.NewGeometryCollection(ms).AsGeometry()
	}
}

var AllTypes = []geom.GeometryType{geom.TypePoint, geom.TypeMultiPoint, geom.TypeLineString, geom.TypeMultiLineString,
	geom.TypePolygon, geom.TypeMultiPolygon, geom.TypeGeometryCollection}

// EmptyOf returns the typed empty geometry.
func EmptyOf(t geom.GeometryType, ct geom.CoordinatesType) geom.Geometry {
	switch t {
	case geom.TypePoint:
		return geom.NewEmptyPoint(ct).AsGeometry()
	case geom.TypeMultiPoint:
		return geom.MultiPoint{}.ForceCoordinatesType(ct).AsGeometry()
	case geom.TypeLineString:
		return geom.LineString{}.ForceCoordinatesType(ct).AsGeometry()
	case geom.TypeMultiLineString:
		return geom.MultiLineString{}.ForceCoordinatesType(ct).AsGeometry()
	case geom.TypePolygon:
		return geom.Polygon{}.ForceCoordinatesType(ct).AsGeometry()
	case geom.TypeMultiPolygon:
		return geom.MultiPolygon{}.ForceCoordinatesType(ct).AsGeometry()
	default:
		return geom.GeometryCollection{}.ForceCoordinatesType(ct).AsGeometry()
	}
}

// Any returns a valid geometry of a random type, occasionally empty.
func (g *G) Any(depth int) geom.Geometry {
	t := AllTypes[g.R.Intn(len(AllTypes))]
	if g.R.Chance(1, 25) {
		return EmptyOf(t, geom.DimXY)
	}
	return g.Typed(t, depth)
}

// WithEmpties returns g with empty members inserted at random positions of
// every Multi*/collection node (validity is preserved). n = expected number
// of insertions per container (0..n).
func WithEmpties(r *run.Rng, g geom.Geometry, n int) geom.Geometry {
	ct := g.CoordinatesType()
	switch g.Type() {
	case geom.TypeMultiPoint:
		mp := g.MustAsMultiPoint()
		pts := make([]geom.Point, mp.NumPoints())
		for i := range pts {
			pts[i] = mp.PointN(i)
		}
		for k := r.Intn(n + 1); k > 0; k-- {
			i := r.Intn(len(pts) + 1)
			pts = append(pts[:i], append([]geom.Point{geom.NewEmptyPoint(ct)}, pts[i:]...)...)
		}
		return geom.NewMultiPoint(pts).AsGeometry()
	case geom.TypeMultiLineString:
		ml := g.MustAsMultiLineString()
		ls := make([]geom.LineString, ml.NumLineStrings())
		for i := range ls {
			ls[i] = ml.LineStringN(i)
		}
		for k := r.Intn(n + 1); k > 0; k-- {
			i := r.Intn(len(ls) + 1)
			ls = append(ls[:i], append([]geom.LineString{geom.LineString{}.ForceCoordinatesType(ct)}, ls[i:]...)...)
		}
		return geom.NewMultiLineString(ls).AsGeometry()
	case geom.TypeMultiPolygon:
		mp := g.MustAsMultiPolygon()
		ps := make([]geom.Polygon, mp.NumPolygons())
		for i := range ps {
			ps[i] = mp.PolygonN(i)
		}
		for k := r.Intn(n + 1); k > 0; k-- {
			i := r.Intn(len(ps) + 1)
			ps = append(ps[:i], append([]geom.Polygon{geom.Polygon{}.ForceCoordinatesType(ct)}, ps[i:]...)...)
		}
		return geom.NewMultiPolygon(ps).AsGeometry()
	case geom.TypeGeometryCollection:
		gc := g.MustAsGeometryCollection()
		ms := make([]geom.Geometry, gc.NumGeometries())
		for i := range ms {
			ms[i] = WithEmpties(r, gc.GeometryN(i), n)
		}
		for k := r.Intn(n + 1); k > 0; k-- {
			i := r.Intn(len(ms) + 1)
			e := EmptyOf(AllTypes[r.Intn(7)], ct)
			ms = append(ms[:i], append([]geom.Geometry{e}, ms[i:]...)...)
		}
		return geom.NewGeometryCollection(ms).AsGeometry()
	}
	return g
}

var AllCTypes = []geom.CoordinatesType{geom.DimXY, geom.DimXYZ, geom.DimXYM, geom.DimXYZM}

// Rich returns a valid geometry of a random type and coordinate type with
// empty members, sometimes wholly empty.
func (g *G) Rich(depth int) geom.Geometry {
	t := AllTypes[g.R.Intn(len(AllTypes))]
	ct := AllCTypes[g.R.Intn(4)]
	if g.R.Chance(1, 12) {
		return EmptyOf(t, ct)
	}
	x := g.Typed(t, depth).ForceCoordinatesType(ct)
	if g.R.Chance(1, 2) {
		x = WithEmpties(g.R, x, 2)
	}
	return x
}

// GridTyped returns geometries whose edges all lie on the unit grid lines of
// the lattice (rectilinear cell polygons, axis-parallel walks, lattice points),
// so that two such operands overlap collinearly and share vertices almost always.
func (g *G) GridTyped(t geom.GeometryType) geom.Geometry {
	gridPoly := func() (geom.Polygon, bool) {
		for tries := 0; tries < 30; tries++ {
			if rs := g.cellPolygon(); rs != nil {
				p := g.polyFromRings(rs)
				if valid(p.AsGeometry()) {
					return p, true
				}
			}
		}
		return geom.Polygon{}, false
	}
	gridLine := func() geom.LineString {
		for tries := 0; tries < 30; tries++ {
			p := g.rp()
			ps := []ip{p}
			for n := g.R.Range(1, 7); n > 0; n-- {
				d := [4]ip{{1, 0}, {-1, 0}, {0, 1}, {0, -1}}[g.R.Intn(4)]
				k := g.R.Range(1, 3)
				q := ip{p.x + d.x*k, p.y + d.y*k}
				if q.x < 0 || q.y < 0 || q.x > g.Cfg.Side || q.y > g.Cfg.Side {
					continue
				}
				ps = append(ps, q)
				p = q
			}
			l := g.line(ps)
			if valid(l.AsGeometry()) {
				return l
			}
		}
		return g.LineString()
	}
	switch t {
	case geom.TypePolygon:
		if p, ok := gridPoly(); ok {
			return p.AsGeometry()
		}
		return g.Polygon().AsGeometry()
	case geom.TypeMultiPolygon:
		for tries := 0; tries < 20; tries++ {
			a, ok1 := gridPoly()
			b, ok2 := gridPoly()
			if ok1 && ok2 {
				mp := geom.NewMultiPolygon([]geom.Polygon{a, b})
				if valid(mp.AsGeometry()) {
					return mp.AsGeometry()
				}
			}
		}
		return g.MultiPolygon().AsGeometry()
	case geom.TypeLineString:
		return gridLine().AsGeometry()
	case geom.TypeMultiLineString:
		n := g.R.Range(1, 3)
		ls := make([]geom.LineString, n)
		for i := range ls {
			ls[i] = gridLine()
		}
		return geom.NewMultiLineString(ls).AsGeometry()
	case geom.TypeGeometryCollection:
		n := g.R.Range(1, 3)
		ms := make([]geom.Geometry, n)
		for i := range ms {
			ms[i] = g.GridTyped(AllTypes[g.R.Intn(6)])
		}
		return geom.NewGeometryCollection(ms).AsGeometry()
	}
	return g.Typed(t, 0)
}

// ConcurrentPair returns two valid operands built from three or more segments with lattice end points
// that all pass through one point P which is not a lattice point (P = (px/q, py/q), q in 3..7) and lies
// strictly inside each of them: the crossing has to be computed, and different pairs of segments may
// round it differently. Segments appear as lines or as edges of triangles, spread over both operands.
// Only meaningful on non-jittered lattices; ok is false when no configuration was found.
func (g *G) ConcurrentPair() (a, b geom.Geometry, ok bool) {
	if g.Cfg.GP {
		return a, b, false
	}
	S := g.Cfg.Side
	if S > 16 {
		S = 16
	}
	if S < 4 {
		return a, b, false
	}
	var parts [2][]geom.Geometry
	points := g.R.Range(1, 5) // several concurrency points per pair of operands
	found := 0
	for tries := 0; tries < 40 && found < points; tries++ {
		// mostly dyadic P: exactly representable, hence exactly on the boundary between two of the overlay's
		// snapping buckets, so that crossings computed one ulp apart by different pairs fall on both sides
		q := []int{2, 4, 8, 4, 2, 8, 3, 5, 7}[g.R.Intn(9)]
		px, py := g.R.Range(q, (S-1)*q), g.R.Range(q, (S-1)*q)
		axis := g.R.Intn(5) // 0: P on a horizontal lattice line, 1: on a vertical one (one ordinate of the crossing is then exact)
		if axis == 0 {
			py -= py % q
		} else if axis == 1 {
			px -= px % q
		}
		if px%q == 0 && py%q == 0 {
			continue
		}
		if g.Cfg.CenterOnP && found == 0 {
			g.Cfg.FlipX, g.Cfg.FlipY = false, false
			g.Cfg.OffX, g.Cfg.OffY = -(px/q)-g.R.Intn(2), -(py/q)-g.R.Intn(2)
		}
		// all lattice segments AB in the box with P strictly inside
		type sg struct{ a, b ip }
		var segs []sg
		for ax := 0; ax <= S; ax++ {
			for ay := 0; ay <= S; ay++ {
				// q(P-A) = (dx,dy) = g0*(ux,uy) with (ux,uy) primitive: P sits at parameter g0/q along the lattice
				// direction (ux,uy) from A; every lattice point B = A + m(ux,uy) with m > g0/q puts P strictly
				// inside AB, at the (generally non-dyadic) fraction g0/(q m) of it
				dx, dy := px-q*ax, py-q*ay
				g0 := gcdInt(absInt(dx), absInt(dy))
				if dx == 0 && dy == 0 {
					continue
				}
				ux, uy := dx/g0, dy/g0
				for m := g0/q + 1; m <= 2*S; m++ {
					bx, by := ax+m*ux, ay+m*uy
					if bx < 0 || by < 0 || bx > S || by > S {
						break
					}
					if ax < bx || (ax == bx && ay < by) {
						segs = append(segs, sg{ip{ax, ay}, ip{bx, by}})
					}
				}
			}
		}
		// one segment per direction
		byDir := map[[2]int][]sg{}
		for _, s := range segs {
			dx, dy := s.b.x-s.a.x, s.b.y-s.a.y
			gc := gcdInt(absInt(dx), absInt(dy))
			byDir[[2]int{dx / gc, dy / gc}] = append(byDir[[2]int{dx / gc, dy / gc}], s)
		}
		if len(byDir) < 3 {
			continue
		}
		var dirs [][2]int
		for d := range byDir {
			dirs = append(dirs, d)
		}
		sort.Slice(dirs, func(i, j int) bool {
			return dirs[i][0] < dirs[j][0] || (dirs[i][0] == dirs[j][0] && dirs[i][1] < dirs[j][1])
		})
		{
			sh := make([][2]int, len(dirs))
			for i, j := range g.R.Perm(len(dirs)) {
				sh[i] = dirs[j]
			}
			dirs = sh
		}
		// the axis-parallel segment through P first, when there is one
		for i, d := range dirs {
			if (axis == 0 && d[1] == 0) || (axis == 1 && d[0] == 0) {
				dirs[0], dirs[i] = dirs[i], dirs[0]
			}
		}
		k := g.R.Range(3, 5)
		if k > len(dirs) {
			k = len(dirs)
		}
		for i := 0; i < k; i++ {
			cand := byDir[dirs[i]]
			s := cand[g.R.Intn(len(cand))]
			var piece geom.Geometry
			if found == 0 && g.R.Chance(1, 3) { // as an edge of a triangle (first point only: members may overlap, which C01 allows, but keep it readable)
				c := g.rp()
				if cross(s.a, s.b, c) == 0 {
					piece = g.line([]ip{s.a, s.b}).AsGeometry()
				} else {
					piece = g.polyFromRings([][]ip{{s.a, s.b, c, s.a}}).AsGeometry()
				}
			} else {
				pts := []ip{s.a, s.b}
				if g.R.Bool() {
					pts = []ip{s.b, s.a}
				}
				piece = g.line(pts).AsGeometry()
			}
			side := i % 2
			if i >= 2 {
				side = g.R.Intn(2)
			}
			parts[side] = append(parts[side], piece)
		}
		found++
	}
	if len(parts[0]) == 0 || len(parts[1]) == 0 {
		return a, b, false
	}
	mk := func(ps []geom.Geometry) geom.Geometry {
		if g.R.Bool() { // member order matters for the order in which nodes are met
			sh := make([]geom.Geometry, len(ps))
			for i, j := range g.R.Perm(len(ps)) {
				sh[i] = ps[j]
			}
			ps = sh
		}
		if len(ps) == 1 {
			return ps[0]
		}
		allLines := true
		for _, p := range ps {
			allLines = allLines && p.IsLineString()
		}
		if allLines {
			ls := make([]geom.LineString, len(ps))
			for i, p := range ps {
				ls[i] = p.MustAsLineString()
			}
			return geom.NewMultiLineString(ls).AsGeometry()
		}
		return geom.NewGeometryCollection(ps).AsGeometry()
	}
	a, b = mk(parts[0]), mk(parts[1])
	return a, b, valid(a) && valid(b)
}

func absInt(x int) int {
	if x < 0 {
		return -x
	}
	return x
}

func gcdInt(a, b int) int {
	for b != 0 {
		a, b = b, a%b
	}
	if a == 0 {
		return 1
	}
	return a
}
