package codec

import (
	"fmt"
	"math"
	"math/big"
	"strconv"
	"strings"

	"github.com/peterstace/simplefeatures/geom"

	"verif/model"
	"verif/run"
)

var wktTag = map[geom.GeometryType]string{geom.TypePoint: "POINT", geom.TypeLineString: "LINESTRING", geom.TypePolygon: "POLYGON",
	geom.TypeMultiPoint: "MULTIPOINT", geom.TypeMultiLineString: "MULTILINESTRING", geom.TypeMultiPolygon: "MULTIPOLYGON",
	geom.TypeGeometryCollection: "GEOMETRYCOLLECTION"}

// ---------- strict OGC-BNF parser (no exponent numerals, parenthesised MultiPoint members) ----------

type wktTok struct {
	kind byte // 'w' word, 'n' number, '(' ')' ','
	text string
}

func lexWKT(s string, allowExp bool) ([]wktTok, error) {
	var out []wktTok
	i := 0
	for i < len(s) {
		c := s[i]
		switch {
		case c == ' ' || c == '\t' || c == '\n' || c == '\r':
			i++
		case c == '(' || c == ')' || c == ',':
			out = append(out, wktTok{c, string(c)})
			i++
		case (c >= 'A' && c <= 'Z') || (c >= 'a' && c <= 'z'):
			j := i
			for j < len(s) && ((s[j] >= 'A' && s[j] <= 'Z') || (s[j] >= 'a' && s[j] <= 'z')) {
				j++
			}
			out = append(out, wktTok{'w', s[i:j]})
			i = j
		case c == '-' || c == '+' || c == '.' || (c >= '0' && c <= '9'):
			j := i
			if s[j] == '-' || s[j] == '+' {
				j++
			}
			d := 0
			for j < len(s) && s[j] >= '0' && s[j] <= '9' {
				j++
				d++
			}
			if j < len(s) && s[j] == '.' {
				j++
				for j < len(s) && s[j] >= '0' && s[j] <= '9' {
					j++
					d++
				}
			}
			if d == 0 {
				return nil, fmt.Errorf("bad numeral at %d", i)
			}
			if j < len(s) && (s[j] == 'e' || s[j] == 'E') {
				if !allowExp {
					return nil, fmt.Errorf("exponent-form numeral at %d", i)
				}
				j++
				if j < len(s) && (s[j] == '-' || s[j] == '+') {
					j++
				}
				e := 0
				for j < len(s) && s[j] >= '0' && s[j] <= '9' {
					j++
					e++
				}
				if e == 0 {
					return nil, fmt.Errorf("bad exponent at %d", i)
				}
			}
			out = append(out, wktTok{'n', s[i:j]})
			i = j
		default:
			return nil, fmt.Errorf("unexpected character %q at %d", c, i)
		}
	}
	return out, nil
}

type wktParser struct {
	toks     []wktTok
	pos      int
	Numerals []string // numeral texts in order of appearance
	strict   bool
}

func (p *wktParser) peek() wktTok {
	if p.pos < len(p.toks) {
		return p.toks[p.pos]
	}
	return wktTok{}
}
func (p *wktParser) next() wktTok { t := p.peek(); p.pos++; return t }
func (p *wktParser) expect(k byte) error {
	if t := p.next(); t.kind != k {
		return fmt.Errorf("expected %q got %q", k, t.text)
	}
	return nil
}

// exactFloat parses a decimal numeral to the nearest float64 exactly.
func exactFloat(s string) (float64, error) {
	r, ok := new(big.Rat).SetString(s)
	if !ok {
		return 0, fmt.Errorf("bad numeral %q", s)
	}
	f, _ := r.Float64()
	if r.Sign() == 0 && strings.HasPrefix(s, "-") {
		f = math.Copysign(0, -1)
	}
	return f, nil
}

func (p *wktParser) tuple(ct geom.CoordinatesType) ([]float64, error) {
	var c []float64
	for i := 0; i < ct.Dimension(); i++ {
		t := p.next()
		if t.kind != 'n' {
			return nil, fmt.Errorf("expected numeral got %q", t.text)
		}
		p.Numerals = append(p.Numerals, t.text)
		f, err := exactFloat(t.text)
		if err != nil {
			return nil, err
		}
		c = append(c, f)
	}
	return c, nil
}

func (p *wktParser) isEmpty() bool {
	if t := p.peek(); t.kind == 'w' && strings.EqualFold(t.text, "EMPTY") {
		p.pos++
		return true
	}
	return false
}

func (p *wktParser) seq(ct geom.CoordinatesType) ([]float64, error) {
	if err := p.expect('('); err != nil {
		return nil, err
	}
	var out []float64
	for {
		c, err := p.tuple(ct)
		if err != nil {
			return nil, err
		}
		out = append(out, c...)
		if p.peek().kind == ',' {
			p.pos++
			continue
		}
		break
	}
	return out, p.expect(')')
}

func (p *wktParser) polyBody(ct geom.CoordinatesType) ([]model.Tree, error) {
	if err := p.expect('('); err != nil {
		return nil, err
	}
	var rings []model.Tree
	for {
		c, err := p.seq(ct)
		if err != nil {
			return nil, err
		}
		rings = append(rings, model.Tree{Type: geom.TypeLineString, CT: ct, Coords: c})
		if p.peek().kind == ',' {
			p.pos++
			continue
		}
		break
	}
	return rings, p.expect(')')
}

func (p *wktParser) geometry() (model.Tree, error) {
	t := p.next()
	if t.kind != 'w' {
		return model.Tree{}, fmt.Errorf("expected geometry tag got %q", t.text)
	}
	var gt geom.GeometryType
	found := false
	for k, v := range wktTag {
		if (p.strict && t.text == v) || (!p.strict && strings.EqualFold(t.text, v)) {
			gt, found = k, true
		}
	}
	if !found {
		return model.Tree{}, fmt.Errorf("unknown tag %q", t.text)
	}
	ct := geom.DimXY
	if w := p.peek(); w.kind == 'w' {
		switch strings.ToUpper(w.text) {
		case "Z":
			ct = geom.DimXYZ
			p.pos++
		case "M":
			ct = geom.DimXYM
			p.pos++
		case "ZM":
			ct = geom.DimXYZM
			p.pos++
		}
	}
	n := model.Tree{Type: gt, CT: ct}
	if p.isEmpty() {
		return n, nil
	}
	switch gt {
	case geom.TypePoint:
		if err := p.expect('('); err != nil {
			return n, err
		}
		c, err := p.tuple(ct)
		if err != nil {
			return n, err
		}
		n.Coords = c
		return n, p.expect(')')
	case geom.TypeLineString:
		c, err := p.seq(ct)
		n.Coords = c
		return n, err
	case geom.TypePolygon:
		r, err := p.polyBody(ct)
		n.Kids = r
		return n, err
	case geom.TypeGeometryCollection:
		if err := p.expect('('); err != nil {
			return n, err
		}
		for {
			k, err := p.geometry()
			if err != nil {
				return n, err
			}
			n.Kids = append(n.Kids, k)
			if p.peek().kind == ',' {
				p.pos++
				continue
			}
			break
		}
		return n, p.expect(')')
	}
	// Multi*
	if err := p.expect('('); err != nil {
		return n, err
	}
	for {
		var k model.Tree
		switch gt {
		case geom.TypeMultiPoint:
			k = model.Tree{Type: geom.TypePoint, CT: ct}
			if !p.isEmpty() {
				if p.peek().kind == '(' {
					p.pos++
					c, err := p.tuple(ct)
					if err != nil {
						return n, err
					}
					k.Coords = c
					if err := p.expect(')'); err != nil {
						return n, err
					}
				} else if !p.strict {
					c, err := p.tuple(ct)
					if err != nil {
						return n, err
					}
					k.Coords = c
				} else {
					return n, fmt.Errorf("MultiPoint member without parentheses")
				}
			}
		case geom.TypeMultiLineString:
			k = model.Tree{Type: geom.TypeLineString, CT: ct}
			if !p.isEmpty() {
				c, err := p.seq(ct)
				if err != nil {
					return n, err
				}
				k.Coords = c
			}
		case geom.TypeMultiPolygon:
			k = model.Tree{Type: geom.TypePolygon, CT: ct}
			if !p.isEmpty() {
				r, err := p.polyBody(ct)
				if err != nil {
					return n, err
				}
				k.Kids = r
			}
		}
		n.Kids = append(n.Kids, k)
		if p.peek().kind == ',' {
			p.pos++
			continue
		}
		break
	}
	return n, p.expect(')')
}

// ParseWKTStrict parses text with the strict OGC grammar: upper-case tags,
// positional numerals only, parenthesised MultiPoint members, no trailing
// tokens. It also returns the numeral texts in order.
func ParseWKTStrict(s string) (model.Tree, []string, error) {
	toks, err := lexWKT(s, false)
	if err != nil {
		return model.Tree{}, nil, err
	}
	p := &wktParser{toks: toks, strict: true}
	t, err := p.geometry()
	if err != nil {
		return t, nil, err
	}
	if p.pos != len(p.toks) {
		return t, nil, fmt.Errorf("trailing tokens")
	}
	return t, p.Numerals, nil
}

// ---------- independent printer with controllable spelling ----------

type Spelling struct {
	R          *run.Rng
	LowerCase  bool // random keyword case
	Whitespace bool // tabs/newlines/extra spaces
	BareMP     bool // MultiPoint members without parentheses
	Exponent   bool // exponent-form numerals
}

func (s Spelling) ws(min int) string {
	if !s.Whitespace {
		return strings.Repeat(" ", min)
	}
	opts := []string{" ", "  ", "\t", "\n", " \n ", "\r\n"}
	if min == 0 {
		opts = append(opts, "", "", "")
	}
	return opts[s.R.Intn(len(opts))]
}

func (s Spelling) word(w string) string {
	if !s.LowerCase {
		return w
	}
	switch s.R.Intn(3) {
	case 0:
		return strings.ToLower(w)
	case 1:
		b := []byte(w)
		for i := range b {
			if s.R.Bool() {
				b[i] = b[i] | 0x20
			}
		}
		return string(b)
	}
	return w
}

// Numeral renders v as a decimal that parses back to exactly v.
func (s Spelling) Numeral(v float64) string {
	if s.Exponent {
		switch s.R.Intn(4) {
		case 0:
			return strconv.FormatFloat(v, 'e', -1, 64)
		case 1:
			return strings.ToUpper(strconv.FormatFloat(v, 'e', -1, 64))
		case 2:
			t := strconv.FormatFloat(v, 'e', -1, 64)
			return strings.Replace(t, "e+", "e", 1)
		}
	}
	// exact decimal expansion of the double (bit-identical by construction)
	if v == 0 {
		if math.Signbit(v) {
			return "-0"
		}
		return "0"
	}
	a := math.Abs(v)
	if a >= 1e-30 && a < 1e40 && s.R != nil && s.R.Chance(1, 3) {
		t := new(big.Float).SetPrec(2000).SetFloat64(v).Text('f', 400)
		t = strings.TrimRight(t, "0")
		t = strings.TrimSuffix(t, ".")
		return t
	}
	return new(big.Float).SetFloat64(v).Text('f', -1)
}

// Print renders the tree in WKT with the requested spelling.
func (s Spelling) Print(t model.Tree) string {
	var sb strings.Builder
	var geomFn func(n model.Tree)
	tuple := func(c []float64) {
		for i, v := range c {
			if i > 0 {
				sb.WriteString(s.ws(1))
			}
			sb.WriteString(s.Numeral(v))
		}
	}
	seq := func(c []float64, d int) {
		sb.WriteString("(" + s.ws(0))
		for i := 0; i+d <= len(c); i += d {
			if i > 0 {
				sb.WriteString(s.ws(0) + "," + s.ws(0))
			}
			tuple(c[i : i+d])
		}
		sb.WriteString(s.ws(0) + ")")
	}
	poly := func(n model.Tree, d int) {
		sb.WriteString("(" + s.ws(0))
		for i, r := range n.Kids {
			if i > 0 {
				sb.WriteString(s.ws(0) + "," + s.ws(0))
			}
			seq(r.Coords, d)
		}
		sb.WriteString(s.ws(0) + ")")
	}
	geomFn = func(n model.Tree) {
		d := n.CT.Dimension()
		sb.WriteString(s.word(wktTag[n.Type]))
		if n.CT != geom.DimXY {
			sb.WriteString(s.ws(1) + map[geom.CoordinatesType]string{geom.DimXYZ: "Z", geom.DimXYM: "M", geom.DimXYZM: "ZM"}[n.CT])
		}
		if n.IsEmptyNode() {
			sb.WriteString(s.ws(1) + "EMPTY")
			return
		}
		sb.WriteString(s.ws(0))
		switch n.Type {
		case geom.TypePoint:
			sb.WriteString("(" + s.ws(0))
			tuple(n.Coords)
			sb.WriteString(s.ws(0) + ")")
		case geom.TypeLineString:
			seq(n.Coords, d)
		case geom.TypePolygon:
			poly(n, d)
		case geom.TypeGeometryCollection:
			sb.WriteString("(" + s.ws(0))
			for i, k := range n.Kids {
				if i > 0 {
					sb.WriteString(s.ws(0) + "," + s.ws(0))
				}
				geomFn(k)
			}
			sb.WriteString(s.ws(0) + ")")
		default:
			sb.WriteString("(" + s.ws(0))
			for i, k := range n.Kids {
				if i > 0 {
					sb.WriteString(s.ws(0) + "," + s.ws(0))
				}
				if k.IsEmptyNode() {
					sb.WriteString("EMPTY")
					continue
				}
				switch n.Type {
				case geom.TypeMultiPoint:
					if s.BareMP {
						tuple(k.Coords)
					} else {
						sb.WriteString("(" + s.ws(0))
						tuple(k.Coords)
						sb.WriteString(s.ws(0) + ")")
					}
				case geom.TypeMultiLineString:
					seq(k.Coords, d)
				case geom.TypeMultiPolygon:
					poly(k, d)
				}
			}
			sb.WriteString(s.ws(0) + ")")
		}
	}
	geomFn(t)
	return sb.String()
}
