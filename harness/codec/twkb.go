package codec

import (
	"errors"
	"fmt"
)

// TW is the varint-level reading of one TWKB geometry, written from the TWKB
// specification (type/precision byte, metadata byte, optional extended
// precision byte, size, bbox (min,delta) pairs, id list, delta-coded points).
type TW struct {
	Start, End   int
	Type         int // 1..7
	PrecXY       int
	HasBBox      bool
	HasSize      bool
	HasIDs       bool
	HasExt       bool
	Empty        bool
	HasZ, HasM   bool
	PrecZ, PrecM int
	Dims         int
	SizeVal      uint64  // value of the size field
	AfterSize    int     // offset just after the size field
	BBox         []int64 // min,delta per dimension
	IDs          []int64
	// Parts: absolute scaled integers per point. Point: one part of one point;
	// LineString: one part; Polygon: one part per ring; MultiPoint: one part per
	// point; MultiLineString: one part per line.
	Parts  [][][]int64
	Kids   []TW // MultiPolygon: polygons (Type 3, no headers); collection: full geometries
	Fields []Field
}

type twReader struct {
	b      []byte
	pos    int
	fields []Field
}

var errTWShort = errors.New("twkb: unexpected end of input")

func (r *twReader) byte1(kind string) (byte, error) {
	if r.pos >= len(r.b) {
		return 0, errTWShort
	}
	r.fields = append(r.fields, Field{Off: r.pos, Width: 1, Kind: kind})
	v := r.b[r.pos]
	r.pos++
	return v, nil
}

func (r *twReader) uvarint(kind string) (uint64, error) {
	var v uint64
	start := r.pos
	for shift := uint(0); ; shift += 7 {
		if r.pos >= len(r.b) {
			return 0, errTWShort
		}
		c := r.b[r.pos]
		r.pos++
		if shift == 63 && c > 1 {
			return 0, errors.New("twkb: varint overflow")
		}
		if shift > 63 {
			return 0, errors.New("twkb: varint overflow")
		}
		v |= uint64(c&0x7f) << shift
		if c < 0x80 {
			break
		}
	}
	r.fields = append(r.fields, Field{Off: start, Width: r.pos - start, Kind: kind})
	return v, nil
}

func (r *twReader) svarint(kind string) (int64, error) {
	u, err := r.uvarint(kind)
	if err != nil {
		return 0, err
	}
	return int64(u>>1) ^ -int64(u&1), nil
}

func (r *twReader) points(n uint64, dims int, ref []int64) ([][]int64, error) {
	if n > uint64(len(r.b)) {
		return nil, fmt.Errorf("twkb: point count %d exceeds input length", n)
	}
	out := make([][]int64, 0, n)
	for i := uint64(0); i < n; i++ {
		p := make([]int64, dims)
		for d := 0; d < dims; d++ {
			dv, err := r.svarint("varint-coord")
			if err != nil {
				return nil, err
			}
			ref[d] += dv
			p[d] = ref[d]
		}
		out = append(out, p)
	}
	return out, nil
}

func (r *twReader) polygon(dims int, ref []int64) ([][][]int64, error) {
	nr, err := r.uvarint("varint-count")
	if err != nil {
		return nil, err
	}
	if nr > uint64(len(r.b)) {
		return nil, fmt.Errorf("twkb: ring count %d exceeds input length", nr)
	}
	var rings [][][]int64
	for i := uint64(0); i < nr; i++ {
		np, err := r.uvarint("varint-count")
		if err != nil {
			return nil, err
		}
		pts, err := r.points(np, dims, ref)
		if err != nil {
			return nil, err
		}
		rings = append(rings, pts)
	}
	return rings, nil
}

func (r *twReader) geometry() (TW, error) {
	t := TW{Start: r.pos, Dims: 2}
	tp, err := r.byte1("type-precision")
	if err != nil {
		return t, err
	}
	t.Type = int(tp & 0x0f)
	z := uint64(tp >> 4)
	t.PrecXY = int(int64(z>>1) ^ -int64(z&1))
	if t.Type < 1 || t.Type > 7 {
		return t, fmt.Errorf("twkb: bad type %d", t.Type)
	}
	md, err := r.byte1("metadata")
	if err != nil {
		return t, err
	}
	t.HasBBox, t.HasSize, t.HasIDs, t.HasExt, t.Empty = md&1 != 0, md&2 != 0, md&4 != 0, md&8 != 0, md&16 != 0
	if t.HasExt {
		e, err := r.byte1("extended-precision")
		if err != nil {
			return t, err
		}
		if e&1 != 0 {
			t.HasZ, t.PrecZ = true, int(e>>2&7)
			t.Dims++
		}
		if e&2 != 0 {
			t.HasM, t.PrecM = true, int(e>>5&7)
			t.Dims++
		}
	}
	if t.HasSize {
		if t.SizeVal, err = r.uvarint("varint-size"); err != nil {
			return t, err
		}
		t.AfterSize = r.pos
	}
	if t.HasBBox {
		for d := 0; d < 2*t.Dims; d++ {
			v, err := r.svarint("varint-bbox")
			if err != nil {
				return t, err
			}
			t.BBox = append(t.BBox, v)
		}
	}
	if t.Empty {
		t.End = r.pos
		return t, nil
	}
	ref := make([]int64, t.Dims)
	ids := func(n uint64) error {
		if !t.HasIDs {
			return nil
		}
		if n > uint64(len(r.b)) {
			return fmt.Errorf("twkb: id count %d exceeds input length", n)
		}
		for i := uint64(0); i < n; i++ {
			v, err := r.svarint("varint-id")
			if err != nil {
				return err
			}
			t.IDs = append(t.IDs, v)
		}
		return nil
	}
	switch t.Type {
	case 1:
		pts, err := r.points(1, t.Dims, ref)
		if err != nil {
			return t, err
		}
		t.Parts = [][][]int64{pts}
	case 2:
		n, err := r.uvarint("varint-count")
		if err != nil {
			return t, err
		}
		pts, err := r.points(n, t.Dims, ref)
		if err != nil {
			return t, err
		}
		t.Parts = [][][]int64{pts}
	case 3:
		rings, err := r.polygon(t.Dims, ref)
		if err != nil {
			return t, err
		}
		t.Parts = rings
	case 4:
		n, err := r.uvarint("varint-count")
		if err != nil {
			return t, err
		}
		if err := ids(n); err != nil {
			return t, err
		}
		if n > uint64(len(r.b)) {
			return t, fmt.Errorf("twkb: count %d exceeds input length", n)
		}
		for i := uint64(0); i < n; i++ {
			pts, err := r.points(1, t.Dims, ref)
			if err != nil {
				return t, err
			}
			t.Parts = append(t.Parts, pts)
		}
	case 5:
		n, err := r.uvarint("varint-count")
		if err != nil {
			return t, err
		}
		if err := ids(n); err != nil {
			return t, err
		}
		if n > uint64(len(r.b)) {
			return t, fmt.Errorf("twkb: count %d exceeds input length", n)
		}
		for i := uint64(0); i < n; i++ {
			np, err := r.uvarint("varint-count")
			if err != nil {
				return t, err
			}
			pts, err := r.points(np, t.Dims, ref)
			if err != nil {
				return t, err
			}
			t.Parts = append(t.Parts, pts)
		}
	case 6:
		n, err := r.uvarint("varint-count")
		if err != nil {
			return t, err
		}
		if err := ids(n); err != nil {
			return t, err
		}
		if n > uint64(len(r.b)) {
			return t, fmt.Errorf("twkb: count %d exceeds input length", n)
		}
		for i := uint64(0); i < n; i++ {
			rings, err := r.polygon(t.Dims, ref)
			if err != nil {
				return t, err
			}
			t.Kids = append(t.Kids, TW{Type: 3, Dims: t.Dims, Parts: rings})
		}
	case 7:
		n, err := r.uvarint("varint-count")
		if err != nil {
			return t, err
		}
		if err := ids(n); err != nil {
			return t, err
		}
		if n > uint64(len(r.b)) {
			return t, fmt.Errorf("twkb: count %d exceeds input length", n)
		}
		for i := uint64(0); i < n; i++ {
			k, err := r.geometry()
			if err != nil {
				return t, err
			}
			t.Kids = append(t.Kids, k)
		}
	}
	t.End = r.pos
	return t, nil
}

// ReadTWKB reads one TWKB geometry at the varint level.
func ReadTWKB(b []byte) (TW, error) {
	r := &twReader{b: b}
	t, err := r.geometry()
	t.Fields = r.fields
	return t, err
}

// AllPoints lists the absolute scaled integer points of the whole subtree.
func (t TW) AllPoints() [][]int64 {
	var out [][]int64
	for _, p := range t.Parts {
		out = append(out, p...)
	}
	for _, k := range t.Kids {
		out = append(out, k.AllPoints()...)
	}
	return out
}
