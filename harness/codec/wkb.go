// Package codec holds codecs written from the format specifications, sharing
// no code with the library, each able to report a field map for targeted
// corruption.
package codec

import (
	"encoding/binary"
	"errors"
	"fmt"
	"math"

	"github.com/peterstace/simplefeatures/geom"

	"verif/model"
)

// Field describes one field of an encoding.
type Field struct {
	Off, Width int
	Kind       string // "byte-order", "type-code", "count", "ordinate", "varint", "header", ...
	BigEndian  bool
}

var wkbCode = map[geom.GeometryType]uint32{geom.TypePoint: 1, geom.TypeLineString: 2, geom.TypePolygon: 3, geom.TypeMultiPoint: 4,
	geom.TypeMultiLineString: 5, geom.TypeMultiPolygon: 6, geom.TypeGeometryCollection: 7}

var wkbType = map[uint32]geom.GeometryType{1: geom.TypePoint, 2: geom.TypeLineString, 3: geom.TypePolygon, 4: geom.TypeMultiPoint,
	5: geom.TypeMultiLineString, 6: geom.TypeMultiPolygon, 7: geom.TypeGeometryCollection}

func ctCode(ct geom.CoordinatesType) uint32 {
	switch ct {
	case geom.DimXYZ:
		return 1000
	case geom.DimXYM:
		return 2000
	case geom.DimXYZM:
		return 3000
	}
	return 0
}

// WKBWriter writes ISO WKB with a per-element byte order choice.
type WKBWriter struct {
	Buf    []byte
	Fields []Field
	elem   int
	Order  func(elem int) bool // true = big endian for the elem-th geometry header (pre-order)
}

func (w *WKBWriter) u32(v uint32, be bool, kind string) {
	w.Fields = append(w.Fields, Field{len(w.Buf), 4, kind, be})
	var b [4]byte
	if be {
		binary.BigEndian.PutUint32(b[:], v)
	} else {
		binary.LittleEndian.PutUint32(b[:], v)
	}
	w.Buf = append(w.Buf, b[:]...)
}

func (w *WKBWriter) f64(v float64, be bool) {
	w.Fields = append(w.Fields, Field{len(w.Buf), 8, "ordinate", be})
	var b [8]byte
	if be {
		binary.BigEndian.PutUint64(b[:], math.Float64bits(v))
	} else {
		binary.LittleEndian.PutUint64(b[:], math.Float64bits(v))
	}
	w.Buf = append(w.Buf, b[:]...)
}

func (w *WKBWriter) Write(t model.Tree) {
	be := false
	if w.Order != nil {
		be = w.Order(w.elem)
	}
	w.elem++
	w.Fields = append(w.Fields, Field{len(w.Buf), 1, "byte-order", be})
	if be {
		w.Buf = append(w.Buf, 0)
	} else {
		w.Buf = append(w.Buf, 1)
	}
	w.u32(ctCode(t.CT)+wkbCode[t.Type], be, "type-code")
	d := t.CT.Dimension()
	seq := func(c []float64) {
		w.u32(uint32(len(c)/d), be, "count")
		for _, v := range c {
			w.f64(v, be)
		}
	}
	switch t.Type {
	case geom.TypePoint:
		if len(t.Coords) == 0 {
			for i := 0; i < d; i++ {
				w.f64(math.NaN(), be)
			}
		} else {
			for _, v := range t.Coords {
				w.f64(v, be)
			}
		}
	case geom.TypeLineString:
		seq(t.Coords)
	case geom.TypePolygon:
		w.u32(uint32(len(t.Kids)), be, "count")
		for _, r := range t.Kids {
			seq(r.Coords)
		}
	default:
		w.u32(uint32(len(t.Kids)), be, "count")
		for _, k := range t.Kids {
			w.Write(k)
		}
	}
}

// EncodeWKB is the little-endian canonical encoding.
func EncodeWKB(t model.Tree) []byte {
	w := &WKBWriter{}
	w.Write(t)
	return w.Buf
}

// CountElems returns the number of geometry headers (pre-order elements).
func CountElems(t model.Tree) int {
	n := 1
	if t.Type != geom.TypePolygon {
		for _, k := range t.Kids {
			n += CountElems(k)
		}
	}
	return n
}

type wkbReader struct {
	b   []byte
	pos int
}

var errShort = errors.New("unexpected end of input")

func (r *wkbReader) u32(be bool) (uint32, error) {
	if r.pos+4 > len(r.b) {
		return 0, errShort
	}
	var v uint32
	if be {
		v = binary.BigEndian.Uint32(r.b[r.pos:])
	} else {
		v = binary.LittleEndian.Uint32(r.b[r.pos:])
	}
	r.pos += 4
	return v, nil
}

func (r *wkbReader) f64(be bool) (float64, error) {
	if r.pos+8 > len(r.b) {
		return 0, errShort
	}
	var v uint64
	if be {
		v = binary.BigEndian.Uint64(r.b[r.pos:])
	} else {
		v = binary.LittleEndian.Uint64(r.b[r.pos:])
	}
	r.pos += 8
	return math.Float64frombits(v), nil
}

func (r *wkbReader) read() (model.Tree, error) {
	if r.pos >= len(r.b) {
		return model.Tree{}, errShort
	}
	bo := r.b[r.pos]
	r.pos++
	if bo > 1 {
		return model.Tree{}, fmt.Errorf("bad byte order %d", bo)
	}
	be := bo == 0
	code, err := r.u32(be)
	if err != nil {
		return model.Tree{}, err
	}
	gt, ok := wkbType[code%1000]
	if !ok || code/1000 > 3 {
		return model.Tree{}, fmt.Errorf("bad type code %d", code)
	}
	ct := model.CTypes[code/1000]
	t := model.Tree{Type: gt, CT: ct}
	d := ct.Dimension()
	seq := func() ([]float64, error) {
		n, err := r.u32(be)
		if err != nil {
			return nil, err
		}
		if uint64(n)*uint64(d)*8 > uint64(len(r.b)-r.pos) {
			return nil, errShort
		}
		out := make([]float64, 0, int(n)*d)
		for i := 0; i < int(n)*d; i++ {
			v, err := r.f64(be)
			if err != nil {
				return nil, err
			}
			out = append(out, v)
		}
		return out, nil
	}
	switch gt {
	case geom.TypePoint:
		c := make([]float64, d)
		for i := range c {
			if c[i], err = r.f64(be); err != nil {
				return t, err
			}
		}
		if !(math.IsNaN(c[0]) && math.IsNaN(c[1])) {
			t.Coords = c
		}
	case geom.TypeLineString:
		if t.Coords, err = seq(); err != nil {
			return t, err
		}
	case geom.TypePolygon:
		n, err := r.u32(be)
		if err != nil {
			return t, err
		}
		for i := uint32(0); i < n; i++ {
			c, err := seq()
			if err != nil {
				return t, err
			}
			t.Kids = append(t.Kids, model.Tree{Type: geom.TypeLineString, CT: ct, Coords: c})
		}
	default:
		n, err := r.u32(be)
		if err != nil {
			return t, err
		}
		if uint64(n) > uint64(len(r.b)-r.pos) {
			return t, errShort
		}
		for i := uint32(0); i < n; i++ {
			k, err := r.read()
			if err != nil {
				return t, err
			}
			t.Kids = append(t.Kids, k)
		}
	}
	return t, nil
}

// DecodeWKB reads one geometry; n is the number of bytes consumed.
func DecodeWKB(b []byte) (model.Tree, int, error) {
	r := &wkbReader{b: b}
	t, err := r.read()
	return t, r.pos, err
}
