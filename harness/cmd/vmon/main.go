// vmon: driver / worker / replay entry point of the runtime monitors.
package main

import (
	"flag"
	"fmt"
	"os"
	"path/filepath"
	"strconv"
	"strings"

	"verif/run"

	_ "verif/props"
)

func root() string {
	if r := os.Getenv("VERIF_ROOT"); r != "" {
		return r
	}
	exe, err := os.Executable()
	if err == nil {
		return filepath.Dir(filepath.Dir(exe))
	}
	return "/verif"
}

func seed() uint64 {
	if s := os.Getenv("VERIF_SEED"); s != "" {
		if v, err := strconv.ParseUint(s, 10, 64); err == nil {
			return v
		}
		if v, err := strconv.ParseInt(s, 10, 64); err == nil {
			return uint64(v)
		}
	}
	return 1
}

func main() {
	if len(os.Args) < 2 {
		fmt.Fprintln(os.Stderr, "usage: vmon run <id> --tier quick|thorough | worker … | replay <file> | list")
		os.Exit(2)
	}
	switch os.Args[1] {
	case "list":
		for _, id := range run.IDs() {
			fmt.Println(id)
		}
	case "run":
		fs := flag.NewFlagSet("run", flag.ExitOnError)
		tier := fs.String("tier", "quick", "")
		id := os.Args[2]
		fs.Parse(os.Args[3:])
		p := run.Lookup(id)
		if p == nil {
			fmt.Fprintln(os.Stderr, "unknown property", id)
			os.Exit(2)
		}
		os.Exit(run.DriverMain(root(), p, *tier, seed()))
	case "worker":
		fs := flag.NewFlagSet("worker", flag.ExitOnError)
		tier := fs.String("tier", "quick", "")
		sd := fs.Uint64("seed", 1, "")
		variant := fs.String("variant", "", "")
		shard := fs.Int("shard", 0, "")
		nshards := fs.Int("nshards", 1, "")
		skip := fs.String("skip", "", "")
		id := os.Args[2]
		fs.Parse(os.Args[3:])
		p := run.Lookup(id)
		if p == nil {
			os.Exit(4)
		}
		var sk []string
		if *skip != "" {
			sk = strings.Split(*skip, ",")
		}
		run.WorkerMain(root(), p, *tier, *sd, *variant, *shard, *nshards, sk)
	case "replay":
		os.Exit(run.ReplayMain(root(), os.Args[2]))
	default:
		fmt.Fprintln(os.Stderr, "unknown command")
		os.Exit(2)
	}
}
