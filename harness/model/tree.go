// Package model holds the harness's neutral geometry tree: type, coordinate
// type, emptiness, raw float bits and children. Library values are converted
// to and from trees through public accessors and constructors only.
package model

import (
	"fmt"
	"math"
	"strings"

	"github.com/peterstace/simplefeatures/geom"
)

type Tree struct {
	Type   geom.GeometryType
	CT     geom.CoordinatesType
	Coords []float64 // Point: one tuple (nil when empty); LineString: all tuples, stride CT.Dimension()
	Kids   []Tree    // Polygon: rings (LineString trees); Multi*/collection: members
}

func Dim(ct geom.CoordinatesType) int { return ct.Dimension() }

// IsEmptyNode: node carries no coordinate and no child.
func (t Tree) IsEmptyNode() bool { return len(t.Coords) == 0 && len(t.Kids) == 0 }

// HasOrdinate reports whether any coordinate exists in the subtree.
func (t Tree) HasOrdinate() bool {
	if len(t.Coords) > 0 {
		return true
	}
	for _, k := range t.Kids {
		if k.HasOrdinate() {
			return true
		}
	}
	return false
}

func seqFloats(s geom.Sequence) []float64 {
	ct := s.CoordinatesType()
	out := make([]float64, 0, s.Length()*ct.Dimension())
	for i := 0; i < s.Length(); i++ {
		c := s.Get(i)
		out = append(out, c.X, c.Y)
		if ct.Is3D() {
			out = append(out, c.Z)
		}
		if ct.IsMeasured() {
			out = append(out, c.M)
		}
	}
	return out
}

// FromGeom reads a library value through its public accessors. The coordinate
// type recorded at every node is the one that node itself reports. Mismatches
// between a node and the sequence/coordinates inside it are returned in issues.
func FromGeom(g geom.Geometry) (t Tree, issues []string) {
	note := func(f string, a ...any) { issues = append(issues, fmt.Sprintf(f, a...)) }
	var rec func(g geom.Geometry) Tree
	line := func(l geom.LineString) Tree {
		n := Tree{Type: geom.TypeLineString, CT: l.CoordinatesType()}
		s := l.Coordinates()
		if s.CoordinatesType() != n.CT {
			note("LineString reports %v but its sequence reports %v", n.CT, s.CoordinatesType())
		}
		if s.Length() > 0 {
			n.Coords = seqFloats(s)
			if c := s.Get(0); c.Type != s.CoordinatesType() {
				note("sequence reports %v but its coordinates report %v", s.CoordinatesType(), c.Type)
			}
		}
		return n
	}
	rec = func(g geom.Geometry) Tree {
		n := Tree{Type: g.Type(), CT: g.CoordinatesType()}
		switch g.Type() {
		case geom.TypePoint:
			p := g.MustAsPoint()
			if p.CoordinatesType() != n.CT {
				note("Geometry reports %v but Point reports %v", n.CT, p.CoordinatesType())
			}
			if c, ok := p.Coordinates(); ok {
				if c.Type != n.CT {
					note("Point reports %v but its coordinates report %v", n.CT, c.Type)
				}
				n.Coords = []float64{c.X, c.Y}
				if n.CT.Is3D() {
					n.Coords = append(n.Coords, c.Z)
				}
				if n.CT.IsMeasured() {
					n.Coords = append(n.Coords, c.M)
				}
			}
		case geom.TypeLineString:
			n = line(g.MustAsLineString())
			if n.CT != g.CoordinatesType() {
				note("Geometry reports %v but LineString reports %v", g.CoordinatesType(), n.CT)
			}
		case geom.TypePolygon:
			p := g.MustAsPolygon()
			if !p.IsEmpty() {
				n.Kids = append(n.Kids, line(p.ExteriorRing()))
				for i := 0; i < p.NumInteriorRings(); i++ {
					n.Kids = append(n.Kids, line(p.InteriorRingN(i)))
				}
			}
		case geom.TypeMultiPoint:
			m := g.MustAsMultiPoint()
			for i := 0; i < m.NumPoints(); i++ {
				n.Kids = append(n.Kids, rec(m.PointN(i).AsGeometry()))
			}
		case geom.TypeMultiLineString:
			m := g.MustAsMultiLineString()
			for i := 0; i < m.NumLineStrings(); i++ {
				n.Kids = append(n.Kids, line(m.LineStringN(i)))
			}
		case geom.TypeMultiPolygon:
			m := g.MustAsMultiPolygon()
			for i := 0; i < m.NumPolygons(); i++ {
				n.Kids = append(n.Kids, rec(m.PolygonN(i).AsGeometry()))
			}
		case geom.TypeGeometryCollection:
			m := g.MustAsGeometryCollection()
			for i := 0; i < m.NumGeometries(); i++ {
				n.Kids = append(n.Kids, rec(m.GeometryN(i)))
			}
		}
		return n
	}
	t = rec(g)
	return t, issues
}

// UniformCT reports the first node whose coordinate type differs from the root's.
func (t Tree) UniformCT() (bool, string) {
	var rec func(n Tree, path string) (bool, string)
	rec = func(n Tree, path string) (bool, string) {
		if n.CT != t.CT {
			return false, fmt.Sprintf("%s is %v, root is %v", path, n.CT, t.CT)
		}
		for i, k := range n.Kids {
			if ok, s := rec(k, fmt.Sprintf("%s/%s[%d]", path, k.Type, i)); !ok {
				return false, s
			}
		}
		return true, ""
	}
	return rec(t, t.Type.String())
}

func seqOf(fs []float64, ct geom.CoordinatesType) geom.Sequence {
	cp := append([]float64(nil), fs...)
	return geom.NewSequence(cp, ct)
}

// ToGeom builds the library value with public constructors.
func ToGeom(t Tree) geom.Geometry {
	switch t.Type {
	case geom.TypePoint:
		if len(t.Coords) == 0 {
			return geom.NewEmptyPoint(t.CT).AsGeometry()
		}
		c := geom.Coordinates{XY: geom.XY{X: t.Coords[0], Y: t.Coords[1]}, Type: t.CT}
		i := 2
		if t.CT.Is3D() {
			c.Z = t.Coords[i]
			i++
		}
		if t.CT.IsMeasured() {
			c.M = t.Coords[i]
		}
		return geom.NewPoint(c).AsGeometry()
	case geom.TypeLineString:
		return geom.NewLineString(seqOf(t.Coords, t.CT)).AsGeometry()
	case geom.TypePolygon:
		rs := make([]geom.LineString, len(t.Kids))
		for i, k := range t.Kids {
			rs[i] = geom.NewLineString(seqOf(k.Coords, k.CT))
		}
		return geom.NewPolygon(rs).ForceCoordinatesType(t.CT).AsGeometry()
	case geom.TypeMultiPoint:
		ps := make([]geom.Point, len(t.Kids))
		for i, k := range t.Kids {
			ps[i] = ToGeom(k).MustAsPoint()
		}
		return geom.NewMultiPoint(ps).ForceCoordinatesType(t.CT).AsGeometry()
	case geom.TypeMultiLineString:
		ls := make([]geom.LineString, len(t.Kids))
		for i, k := range t.Kids {
			ls[i] = ToGeom(k).MustAsLineString()
		}
		return geom.NewMultiLineString(ls).ForceCoordinatesType(t.CT).AsGeometry()
	case geom.TypeMultiPolygon:
		ps := make([]geom.Polygon, len(t.Kids))
		for i, k := range t.Kids {
			ps[i] = ToGeom(k).MustAsPolygon()
		}
		return geom.NewMultiPolygon(ps).ForceCoordinatesType(t.CT).AsGeometry()
	default:
		gs := make([]geom.Geometry, len(t.Kids))
		for i, k := range t.Kids {
			gs[i] = ToGeom(k)
		}
		return geom.NewGeometryCollection(gs).ForceCoordinatesType(t.CT).AsGeometry()
	}
}

func bitsEq(a, b []float64) bool {
	if len(a) != len(b) {
		return false
	}
	for i := range a {
		if math.Float64bits(a[i]) != math.Float64bits(b[i]) {
			return false
		}
	}
	return true
}

// Equal is bitwise structural equality (NaN compared by bit pattern).
func Equal(a, b Tree) bool { return Diff(a, b) == "" }

// Diff describes the first difference ("" when equal).
func Diff(a, b Tree) string {
	var rec func(a, b Tree, path string) string
	rec = func(a, b Tree, path string) string {
		if a.Type != b.Type {
			return fmt.Sprintf("%s: type %v vs %v", path, a.Type, b.Type)
		}
		if a.CT != b.CT {
			return fmt.Sprintf("%s: coordinate type %v vs %v", path, a.CT, b.CT)
		}
		if !bitsEq(a.Coords, b.Coords) {
			return fmt.Sprintf("%s: ordinates %v vs %v", path, fmtBits(a.Coords), fmtBits(b.Coords))
		}
		if len(a.Kids) != len(b.Kids) {
			return fmt.Sprintf("%s: %d vs %d children", path, len(a.Kids), len(b.Kids))
		}
		for i := range a.Kids {
			if d := rec(a.Kids[i], b.Kids[i], fmt.Sprintf("%s[%d]", path, i)); d != "" {
				return d
			}
		}
		return ""
	}
	return rec(a, b, a.Type.String())
}

func fmtBits(fs []float64) string {
	var sb strings.Builder
	sb.WriteByte('[')
	for i, f := range fs {
		if i > 0 {
			sb.WriteByte(' ')
		}
		if i >= 12 {
			sb.WriteString("…")
			break
		}
		fmt.Fprintf(&sb, "%v(%016x)", f, math.Float64bits(f))
	}
	sb.WriteByte(']')
	return sb.String()
}

func (t Tree) String() string {
	var sb strings.Builder
	var rec func(n Tree)
	rec = func(n Tree) {
		fmt.Fprintf(&sb, "%v/%v", n.Type, n.CT)
		if len(n.Coords) > 0 {
			sb.WriteString(fmtBits(n.Coords))
		}
		if len(n.Kids) > 0 || (len(n.Coords) == 0) {
			sb.WriteByte('{')
			for i, k := range n.Kids {
				if i > 0 {
					sb.WriteByte(',')
				}
				rec(k)
			}
			sb.WriteByte('}')
		}
	}
	rec(t)
	s := sb.String()
	if len(s) > 3000 {
		s = s[:3000] + "…"
	}
	return s
}

// Map applies f to every coordinate tuple (in place on a copy).
func (t Tree) Map(f func(c []float64, ct geom.CoordinatesType)) Tree {
	n := Tree{Type: t.Type, CT: t.CT}
	if len(t.Coords) > 0 {
		n.Coords = append([]float64(nil), t.Coords...)
		d := t.CT.Dimension()
		for i := 0; i+d <= len(n.Coords); i += d {
			f(n.Coords[i:i+d], t.CT)
		}
	}
	for _, k := range t.Kids {
		n.Kids = append(n.Kids, k.Map(f))
	}
	return n
}

// CountNodes returns the number of nodes.
func (t Tree) CountNodes() int {
	n := 1
	for _, k := range t.Kids {
		n += k.CountNodes()
	}
	return n
}
