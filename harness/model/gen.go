package model

import (
	"math"

	"github.com/peterstace/simplefeatures/geom"

	"verif/run"
)

var CTypes = []geom.CoordinatesType{geom.DimXY, geom.DimXYZ, geom.DimXYM, geom.DimXYZM}

var Types = []geom.GeometryType{geom.TypePoint, geom.TypeMultiPoint, geom.TypeLineString, geom.TypeMultiLineString,
	geom.TypePolygon, geom.TypeMultiPolygon, geom.TypeGeometryCollection}

// interesting finite values (all float64 classes the properties name)
var special = []float64{
	0, math.Copysign(0, -1), 1, -1, 2, -3, 10, 100, 0.1, -0.1, 1.0 / 3, 2.0 / 3, 0.5, -0.25,
	123456789.12345678, -9.87654321098765e-5, 3.141592653589793, 2.718281828459045e10,
	9007199254740991, 9007199254740993, -9007199254740992, 4503599627370497.5,
	5e-324, -5e-324, 2.2250738585072014e-308, -2.2250738585072014e-308, 2.225073858507201e-308,
	1.7976931348623157e308, -1.7976931348623157e308, 1e21, 1e20, 1e-7, 1e-6, 123456789012345680000, 1e22, 1.5e300, -2.5e-300,
	0.30000000000000004, 1.0000000000000002, 0.1 + 0.7, 5e-7, 1e15 + 0.3,
}

// ValueOpts controls the ordinate classes.
type ValueOpts struct {
	NonFiniteZM bool // NaN/±Inf may appear in Z and M
	Simple      bool // small decimal values only
}

func (o ValueOpts) val(r *run.Rng, zm bool) float64 {
	if o.Simple {
		return float64(r.Range(-2000, 2000)) / []float64{1, 2, 4, 10, 100}[r.Intn(5)]
	}
	if zm && o.NonFiniteZM && r.Chance(1, 8) {
		return []float64{math.NaN(), math.Inf(1), math.Inf(-1), math.Float64frombits(0x7ff8000000000123)}[r.Intn(4)]
	}
	switch r.Intn(6) {
	case 0, 1:
		return special[r.Intn(len(special))]
	case 2:
		return float64(r.Range(-1000, 1000))
	case 3:
		return float64(r.Range(-100000, 100000)) / 1000
	case 4:
		return (r.Float64()*2 - 1) * math.Pow(10, float64(r.Range(-12, 12)))
	default:
		return r.FiniteFloatBits()
	}
}

func (o ValueOpts) tuple(r *run.Rng, ct geom.CoordinatesType) []float64 {
	c := []float64{o.val(r, false), o.val(r, false)}
	if ct.Is3D() {
		c = append(c, o.val(r, true))
	}
	if ct.IsMeasured() {
		c = append(c, o.val(r, true))
	}
	return c
}

// RandTree builds an arbitrary (not necessarily valid) homogeneous tree:
// every node has coordinate type ct; empty members occur at every position.
func RandTree(r *run.Rng, t geom.GeometryType, ct geom.CoordinatesType, depth int, o ValueOpts) Tree {
	n := Tree{Type: t, CT: ct}
	d := ct.Dimension()
	line := func(min int) Tree {
		l := Tree{Type: geom.TypeLineString, CT: ct}
		k := r.Range(min, 5)
		if r.Chance(1, 6) {
			k = 0
		}
		for i := 0; i < k; i++ {
			l.Coords = append(l.Coords, o.tuple(r, ct)...)
		}
		if k >= 3 && r.Bool() { // close it
			if r.Chance(1, 4) { // a start point with zero ordinates, so that the closing copy can differ in zero signs
				for j := 0; j < d; j++ {
					if r.Bool() {
						l.Coords[j] = []float64{0, math.Copysign(0, -1)}[r.Intn(2)]
					}
				}
			}
			l.Coords = append(l.Coords, l.Coords[:d]...)
			if r.Chance(1, 3) { // closed under ==, but not bit for bit: zero ordinates of the closing point change sign
				for j := len(l.Coords) - d; j < len(l.Coords); j++ {
					if l.Coords[j] == 0 && r.Bool() {
						l.Coords[j] = -l.Coords[j]
					}
				}
			}
		}
		return l
	}
	switch t {
	case geom.TypePoint:
		if !r.Chance(1, 5) {
			n.Coords = o.tuple(r, ct)
		}
	case geom.TypeLineString:
		n = line(1)
	case geom.TypePolygon:
		if !r.Chance(1, 5) {
			for k := r.Range(1, 3); k > 0; k-- {
				ring := line(3)
				if len(ring.Coords) == 0 { // empty rings are excluded by the property
					ring.Coords = append(ring.Coords, o.tuple(r, ct)...)
					ring.Coords = append(ring.Coords, o.tuple(r, ct)...)
					ring.Coords = append(ring.Coords, ring.Coords[:d]...)
				}
				n.Kids = append(n.Kids, ring)
			}
		}
	case geom.TypeMultiPoint, geom.TypeMultiLineString, geom.TypeMultiPolygon:
		sub := map[geom.GeometryType]geom.GeometryType{geom.TypeMultiPoint: geom.TypePoint, geom.TypeMultiLineString: geom.TypeLineString, geom.TypeMultiPolygon: geom.TypePolygon}[t]
		for k := r.Range(0, 4); k > 0; k-- {
			n.Kids = append(n.Kids, RandTree(r, sub, ct, 0, o))
		}
	default:
		for k := r.Range(0, 4); k > 0; k-- {
			st := Types[r.Intn(len(Types))]
			if st == geom.TypeGeometryCollection && depth <= 0 {
				st = geom.TypePoint
			}
			n.Kids = append(n.Kids, RandTree(r, st, ct, depth-1, o))
		}
	}
	return n
}

// SetZM returns a copy of t (whose XY are kept) re-typed to ct with Z and M
// drawn from o (or tagged uniquely when tag is true: z=1000+i, m=-1000-i).
func SetZM(r *run.Rng, t Tree, ct geom.CoordinatesType, o ValueOpts, tag bool) Tree {
	i := 0
	var rec func(n Tree) Tree
	rec = func(n Tree) Tree {
		out := Tree{Type: n.Type, CT: ct}
		od := n.CT.Dimension()
		for j := 0; j+od <= len(n.Coords); j += od {
			out.Coords = append(out.Coords, n.Coords[j], n.Coords[j+1])
			if ct.Is3D() {
				if tag {
					out.Coords = append(out.Coords, float64(1000+i))
				} else {
					out.Coords = append(out.Coords, o.val(r, true))
				}
			}
			if ct.IsMeasured() {
				if tag {
					out.Coords = append(out.Coords, float64(-1000-i))
				} else {
					out.Coords = append(out.Coords, o.val(r, true))
				}
			}
			i++
		}
		for _, k := range n.Kids {
			out.Kids = append(out.Kids, rec(k))
		}
		return out
	}
	out := rec(t)
	// keep rings closed in Z/M as well (first = last tuple) so that closure is a property of the whole tuple
	var fix func(n *Tree)
	fix = func(n *Tree) {
		if n.Type == geom.TypePolygon {
			d := ct.Dimension()
			for ri := range n.Kids {
				c := n.Kids[ri].Coords
				if len(c) >= 2*d {
					copy(c[len(c)-d:], c[:d])
				}
			}
		}
		for ki := range n.Kids {
			fix(&n.Kids[ki])
		}
	}
	fix(&out)
	return out
}

// ScaleXY multiplies X and Y by a power of two (exact, preserves validity).
func ScaleXY(t Tree, exp int) Tree {
	return t.Map(func(c []float64, _ geom.CoordinatesType) {
		c[0] = math.Ldexp(c[0], exp)
		c[1] = math.Ldexp(c[1], exp)
	})
}

// SizedTree builds a tree whose first curve has exactly n vertices (distinct small integer ordinates) and is
// followed by further curves in the same parent, so that decoders working through reusable buffers meet
// every buffer length. kind 0: MultiLineString, 1: Polygon (rings; n >= 4), 2: GeometryCollection.
func SizedTree(kind, n int, ct geom.CoordinatesType) Tree {
	d := ct.Dimension()
	line := func(m, salt int, closed bool) Tree {
		t := Tree{Type: geom.TypeLineString, CT: ct}
		for i := 0; i < m; i++ {
			for j := 0; j < d; j++ {
				t.Coords = append(t.Coords, float64(salt+i*7+j*3))
			}
		}
		if closed && m >= 2 {
			copy(t.Coords[(m-1)*d:], t.Coords[:d])
		}
		return t
	}
	switch kind {
	case 3: // a polygon with n tiny rings (member counts around allocation thresholds)
		t := Tree{Type: geom.TypePolygon, CT: ct}
		for i := 0; i < n; i++ {
			t.Kids = append(t.Kids, line(4, 10*i, true))
		}
		return t
	case 4: // a MultiPoint with n members
		t := Tree{Type: geom.TypeMultiPoint, CT: ct}
		for i := 0; i < n; i++ {
			pt := Tree{Type: geom.TypePoint, CT: ct}
			for j := 0; j < d; j++ {
				pt.Coords = append(pt.Coords, float64(i*3+j))
			}
			t.Kids = append(t.Kids, pt)
		}
		return t
	case 5: // a MultiLineString with n two-point members
		t := Tree{Type: geom.TypeMultiLineString, CT: ct}
		for i := 0; i < n; i++ {
			t.Kids = append(t.Kids, line(2, 20*i, false))
		}
		return t
	case 0:
		return Tree{Type: geom.TypeMultiLineString, CT: ct, Kids: []Tree{line(n, 1, false), line(3, 5000, false), line(2, 9000, false)}}
	case 1:
		if n < 4 {
			n = 4
		}
		return Tree{Type: geom.TypePolygon, CT: ct, Kids: []Tree{line(n, 1, true), line(4, 5000, true)}}
	default:
		pt := Tree{Type: geom.TypePoint, CT: ct}
		for j := 0; j < d; j++ {
			pt.Coords = append(pt.Coords, float64(-1-j))
		}
		return Tree{Type: geom.TypeGeometryCollection, CT: ct, Kids: []Tree{line(n, 1, false), pt, line(2, 5000, false)}}
	}
}
