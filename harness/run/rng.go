package run

import (
	"hash/fnv"
	"math"
)

// Rng is a small deterministic generator (splitmix64 seeding a xorshift128+).
// Every case owns one, derived from (seed, property, stream, index), so case
// lists are a pure function of the seed and can be sharded and replayed.
type Rng struct{ s0, s1 uint64 }

func splitmix(x *uint64) uint64 {
	*x += 0x9e3779b97f4a7c15
	z := *x
	z = (z ^ (z >> 30)) * 0xbf58476d1ce4e5b9
	z = (z ^ (z >> 27)) * 0x94d049bb133111eb
	return z ^ (z >> 31)
}

func NewRng(seed uint64, parts ...string) *Rng {
	h := fnv.New64a()
	for _, p := range parts {
		h.Write([]byte(p))
		h.Write([]byte{0})
	}
	x := seed ^ h.Sum64()
	r := &Rng{}
	r.s0 = splitmix(&x)
	r.s1 = splitmix(&x)
	if r.s0 == 0 && r.s1 == 0 {
		r.s1 = 1
	}
	return r
}

func (r *Rng) Uint64() uint64 {
	a, b := r.s0, r.s1
	r.s0 = b
	a ^= a << 23
	a ^= a >> 17
	a ^= b ^ (b >> 26)
	r.s1 = a
	return a + b
}

// Intn returns a value in [0,n).
func (r *Rng) Intn(n int) int {
	if n <= 0 {
		return 0
	}
	return int(r.Uint64() % uint64(n))
}

// Range returns a value in [lo,hi] inclusive.
func (r *Rng) Range(lo, hi int) int {
	if hi <= lo {
		return lo
	}
	return lo + r.Intn(hi-lo+1)
}

func (r *Rng) Bool() bool { return r.Uint64()&1 == 1 }

// Chance is true with probability num/den.
func (r *Rng) Chance(num, den int) bool { return r.Intn(den) < num }

// Float64 in [0,1) with a full 53-bit mantissa.
func (r *Rng) Float64() float64 {
	return float64(r.Uint64()>>11) / (1 << 53)
}

func (r *Rng) Perm(n int) []int {
	p := make([]int, n)
	for i := range p {
		p[i] = i
	}
	for i := n - 1; i > 0; i-- {
		j := r.Intn(i + 1)
		p[i], p[j] = p[j], p[i]
	}
	return p
}

// Fork derives an independent generator.
func (r *Rng) Fork() *Rng {
	x := r.Uint64()
	n := &Rng{}
	n.s0 = splitmix(&x)
	n.s1 = splitmix(&x)
	return n
}

// FloatBits returns a float64 from raw bits (finite only).
func (r *Rng) FiniteFloatBits() float64 {
	for {
		f := math.Float64frombits(r.Uint64())
		if !math.IsNaN(f) && !math.IsInf(f, 0) {
			return f
		}
	}
}
