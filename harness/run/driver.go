package run

import (
	"bufio"
	"encoding/json"
	"fmt"
	"os"
	"os/exec"
	"path/filepath"
	"runtime"
	"sort"
	"strconv"
	"strings"
	"sync"
	"syscall"
	"time"
)

// Agg is the driver-side aggregate over all shards and variants.
type Agg struct {
	Cases       int64
	Monitors    map[string]*MonStat
	Counters    map[string]int64
	Maxes       map[string]float64
	Sets        map[string]map[string]int
	Nontrivial  map[string]struct{}
	Samples     []Sample
	Violations  []Violation
	Digests     map[string]string
	Deaths      []string
	Inconcl     []string
	VariantsRun []string
}

type Driver struct {
	Root  string
	Prop  *Property
	Tier  string
	Seed  uint64
	Agg   *Agg
	Start time.Time
}

// PostHooks lets a property add driver-side analysis (e.g. race-log counting).
var PostHooks = map[string]func(d *Driver){}

type finding struct {
	status, property, monitor, class, text string
}

func loadFindings(root string) []finding {
	f, err := os.Open(filepath.Join(root, "known_findings.txt"))
	if err != nil {
		return nil
	}
	defer f.Close()
	var out []finding
	sc := bufio.NewScanner(f)
	sc.Buffer(make([]byte, 1<<20), 1<<20)
	for sc.Scan() {
		l := strings.TrimSpace(sc.Text())
		if l == "" || strings.HasPrefix(l, "#") {
			continue
		}
		var fd finding
		switch {
		case strings.HasPrefix(l, "open:"):
			fd.status = "open"
			l = strings.TrimSpace(l[5:])
		case strings.HasPrefix(l, "fixed:"):
			fd.status = "fixed"
			l = strings.TrimSpace(l[6:])
		default:
			continue
		}
		head, text := l, ""
		if i := strings.Index(l, " :: "); i >= 0 {
			head, text = l[:i], l[i+4:]
		}
		for _, tok := range strings.Fields(head) {
			switch {
			case strings.HasPrefix(tok, "property="):
				fd.property = tok[9:]
			case strings.HasPrefix(tok, "monitor="):
				fd.monitor = tok[8:]
			case strings.HasPrefix(tok, "class="):
				fd.class = tok[6:]
			}
		}
		fd.text = text
		if fd.text == "" {
			fd.text = l
		}
		out = append(out, fd)
	}
	return out
}

// evidenceDir: /verif/evidence, or a scratch directory when the check is being
// run against a deliberately broken tree (seeded changes, mutants).
func evidenceDir(root string) string {
	if d := os.Getenv("VERIF_EVIDENCE_DIR"); d != "" {
		return d
	}
	return filepath.Join(root, "evidence")
}

func goEnv() []string {
	env := os.Environ()
	env = append(env, "GOFLAGS=-mod=mod", "GOPROXY=off", "GOSUMDB=off", "GOTOOLCHAIN=local")
	return env
}

func (d *Driver) buildVariant(v Variant) (string, error) {
	if v.Name == "" || len(v.BuildFlags) == 0 {
		return os.Executable()
	}
	out := filepath.Join(d.Root, "bin", "vmon-"+v.Name+os.Getenv("VERIF_INSTANCE"))
	args := []string{"build", "-tags", "verif"}
	if mf := os.Getenv("VERIF_MODFILE"); mf != "" {
		args = append(args, "-modfile="+mf)
	}
	args = append(args, v.BuildFlags...)
	args = append(args, "-o", out, "./cmd/vmon")
	cmd := exec.Command("go", args...)
	cmd.Dir = filepath.Join(d.Root, "harness")
	cmd.Env = goEnv()
	b, err := cmd.CombinedOutput()
	if err != nil {
		return "", fmt.Errorf("build variant %s: %v\n%s", v.Name, err, b)
	}
	return out, nil
}

func lastOpenCase(journal string) string {
	c, _ := lastOpenCaseMark(journal)
	return c
}

// lastOpenCaseMark returns the case that was begun but not ended, and the last
// sub-step mark journaled inside it.
func lastOpenCaseMark(journal string) (string, string) {
	b, err := os.ReadFile(journal)
	if err != nil {
		return "", ""
	}
	if len(b) > 1<<20 {
		b = b[len(b)-1<<20:]
	}
	lines := strings.Split(strings.TrimSpace(string(b)), "\n")
	mark := ""
	for i := len(lines) - 1; i >= 0; i-- {
		l := lines[i]
		switch {
		case strings.HasPrefix(l, "M "):
			if mark == "" {
				mark = l[2:]
			}
		case strings.HasPrefix(l, "B "):
			return l[2:], mark
		case strings.HasPrefix(l, "E "):
			return "", ""
		}
	}
	return "", ""
}

func tailFile(path string, n int) string {
	b, err := os.ReadFile(path)
	if err != nil {
		return ""
	}
	if len(b) > n {
		b = b[len(b)-n:]
	}
	return string(b)
}

func headFile(path string, n int) string {
	b, err := os.ReadFile(path)
	if err != nil {
		return ""
	}
	if len(b) > n {
		b = b[:n]
	}
	return string(b)
}

func (d *Driver) runShard(bin string, v Variant, shard, nshards int, timeout time.Duration) {
	var skip []string
	for attempt := 0; attempt < 8; attempt++ {
		os.Remove(shardPath(d.Root, d.Prop.ID, v.Name, shard))
		args := []string{"worker", d.Prop.ID, "--tier", d.Tier, "--seed", strconv.FormatUint(d.Seed, 10),
			"--variant", v.Name, "--shard", strconv.Itoa(shard), "--nshards", strconv.Itoa(nshards)}
		if len(skip) > 0 {
			args = append(args, "--skip", strings.Join(skip, ","))
		}
		cmd := exec.Command(bin, args...)
		cmd.Env = append(os.Environ(), "VERIF_ROOT="+d.Root, "GOTRACEBACK=single")
		cmd.Env = append(cmd.Env, v.Env...)
		errPath := filepath.Join(workDir(d.Root, d.Prop.ID), fmt.Sprintf("stderr-%s-%d.txt", v.Name, shard))
		ef, _ := os.Create(errPath)
		cmd.Stderr = ef
		cmd.Stdout = ef
		if err := cmd.Start(); err != nil {
			d.mu(func() { d.Agg.Inconcl = append(d.Agg.Inconcl, "cannot start worker: "+err.Error()) })
			return
		}
		done := make(chan error, 1)
		go func() { done <- cmd.Wait() }()
		var err error
		timedOut := false
		select {
		case err = <-done:
		case <-time.After(timeout):
			timedOut = true
			cmd.Process.Signal(syscall.SIGQUIT)
			select {
			case err = <-done:
			case <-time.After(10 * time.Second):
				cmd.Process.Kill()
				err = <-done
			}
		}
		ef.Close()
		if timedOut {
			d.mu(func() {
				d.Agg.Inconcl = append(d.Agg.Inconcl, fmt.Sprintf("watchdog: worker %s/%d exceeded %v on case %q", v.Name, shard, timeout, lastOpenCase(journalPath(d.Root, d.Prop.ID, v.Name, shard))))
			})
			return
		}
		if err == nil {
			return
		}
		// worker died
		code := -1
		if ee, ok := err.(*exec.ExitError); ok {
			code = ee.ExitCode()
		}
		open, mark := lastOpenCaseMark(journalPath(d.Root, d.Prop.ID, v.Name, shard))
		stderrHead := headFile(errPath, 1500)
		if mark != "" {
			stderrHead = "last journaled step: " + mark + " | " + stderrHead
		}
		if code == 5 && open != "" {
			// a single case exhausted its CPU-time budget: non-termination (or a
			// blow-up by orders of magnitude) of a library call on that input
			stream, idx := open, 0
			if i := strings.LastIndexByte(open, '/'); i >= 0 {
				stream = open[:i]
				idx, _ = strconv.Atoi(open[i+1:])
			}
			spec := ReplaySpec{Property: d.Prop.ID, Tier: d.Tier, Seed: d.Seed, Variant: v.Name, Stream: stream, Index: idx,
				Monitor: "terminates", Class: "cpu-budget", Detail: "the case did not finish within its CPU-time budget: " + stderrHead}
			b, _ := json.MarshalIndent(spec, "", " ")
			dir := filepath.Join(ReplayRoot(d.Root), d.Prop.ID)
			os.MkdirAll(dir, 0o755)
			path := filepath.Join(dir, fmt.Sprintf("cpu-budget-%s-%d-%d.json", sanitize(stream), idx, d.Seed))
			os.WriteFile(path, b, 0o644)
			stop := false
			d.mu(func() {
				d.Agg.Violations = append(d.Agg.Violations, Violation{Monitor: "terminates", Class: "cpu-budget", Detail: spec.Detail, Stream: stream, Index: idx, Variant: v.Name, Replay: path})
				m := d.Agg.Monitors["terminates"]
				if m == nil {
					m = &MonStat{}
					d.Agg.Monitors["terminates"] = m
				}
				m.Fails++
				stop = m.Fails >= 3
			})
			if stop {
				// enough witnesses; do not spend more budget on this shard
				d.mu(func() {
					d.Agg.Inconcl = append(d.Agg.Inconcl, fmt.Sprintf("worker %s/%d abandoned after repeated CPU-budget violations", v.Name, shard))
				})
				return
			}
			skip = append(skip, open)
			continue
		}
		if code == 3 || code == 4 || open == "" || !d.Prop.DeathIsViolation {
			d.mu(func() {
				d.Agg.Inconcl = append(d.Agg.Inconcl, fmt.Sprintf("worker %s/%d died (exit %d, %v) on case %q: %s", v.Name, shard, code, err, open, stderrHead))
			})
			return
		}
		// the death is attributed to the journaled case and counts as a violation
		class := "death"
		switch {
		case strings.Contains(stderrHead, "out of memory"), strings.Contains(stderrHead, "cannot allocate memory"):
			class = "death:out-of-memory"
		case strings.Contains(stderrHead, "stack overflow"), strings.Contains(stderrHead, "stack exceeds"):
			class = "death:stack-overflow"
		case strings.Contains(stderrHead, "checkptr"):
			class = "death:checkptr"
		case strings.Contains(stderrHead, "AddressSanitizer"):
			class = "death:asan"
		case strings.Contains(stderrHead, "fatal error"):
			class = "death:fatal-error"
		}
		stream, idx := open, 0
		if i := strings.LastIndexByte(open, '/'); i >= 0 {
			stream = open[:i]
			idx, _ = strconv.Atoi(open[i+1:])
		}
		spec := ReplaySpec{Property: d.Prop.ID, Tier: d.Tier, Seed: d.Seed, Variant: v.Name, Stream: stream, Index: idx,
			Monitor: "alive", Class: class, Detail: "worker process died while running this case: " + stderrHead}
		b, _ := json.MarshalIndent(spec, "", " ")
		dir := filepath.Join(ReplayRoot(d.Root), d.Prop.ID)
		os.MkdirAll(dir, 0o755)
		path := filepath.Join(dir, fmt.Sprintf("death-%s-%d-%d.json", sanitize(stream), idx, d.Seed))
		os.WriteFile(path, b, 0o644)
		d.mu(func() {
			d.Agg.Deaths = append(d.Agg.Deaths, open)
			d.Agg.Violations = append(d.Agg.Violations, Violation{Monitor: "alive", Class: class, Detail: spec.Detail, Stream: stream, Index: idx, Variant: v.Name, Replay: path})
			m := d.Agg.Monitors["alive"]
			if m == nil {
				m = &MonStat{}
				d.Agg.Monitors["alive"] = m
			}
			m.Fails++
		})
		skip = append(skip, open)
	}
	d.mu(func() {
		d.Agg.Inconcl = append(d.Agg.Inconcl, fmt.Sprintf("worker %s/%d: too many deaths, shard abandoned", v.Name, shard))
	})
}

func sanitize(s string) string {
	r := strings.NewReplacer("/", "_", ":", "_", " ", "_")
	return r.Replace(s)
}

var dmu sync.Mutex

func (d *Driver) mu(f func()) { dmu.Lock(); defer dmu.Unlock(); f() }

func (d *Driver) merge(r *ShardResult) {
	a := d.Agg
	a.Cases += r.Cases
	for n, m := range r.Monitors {
		t := a.Monitors[n]
		if t == nil {
			t = &MonStat{}
			a.Monitors[n] = t
		}
		t.Checks += m.Checks
		t.Fails += m.Fails
		t.Skips += m.Skips
	}
	for n, v := range r.Counters {
		a.Counters[n] += v
	}
	for n, v := range r.Maxes {
		if old, ok := a.Maxes[n]; !ok || v > old {
			a.Maxes[n] = v
		}
	}
	for n, s := range r.Sets {
		t := a.Sets[n]
		if t == nil {
			t = map[string]int{}
			a.Sets[n] = t
		}
		for k, c := range s {
			t[k] += c
		}
	}
	for _, h := range r.Nontrivial {
		a.Nontrivial[h] = struct{}{}
	}
	if len(a.Samples) < 12 {
		for _, s := range r.Samples {
			if len(a.Samples) < 12 {
				a.Samples = append(a.Samples, s)
			}
		}
	}
	a.Violations = append(a.Violations, r.Violations...)
	for k, v := range r.Digests {
		key := k
		if old, ok := a.Digests[key]; ok && old != v {
			dir := filepath.Join(ReplayRoot(d.Root), d.Prop.ID)
			os.MkdirAll(dir, 0o755)
			rp := filepath.Join(dir, fmt.Sprintf("cross-process-%s.txt", sanitize(k)))
			os.WriteFile(rp, []byte(fmt.Sprintf("property %s: result digest of %s differs between worker processes\n  %s\n  %s\nre-run: ./check %s %s (VERIF_SEED=%d)\n", d.Prop.ID, k, old, v, d.Prop.ID, d.Tier, d.Seed)), 0o644)
			a.Violations = append(a.Violations, Violation{Monitor: "cross-process", Class: "", Detail: fmt.Sprintf("digest for %s differs between processes: %s vs %s", k, old, v), Stream: k, Replay: rp})
			m := a.Monitors["cross-process"]
			if m == nil {
				m = &MonStat{}
				a.Monitors["cross-process"] = m
			}
			m.Fails++
		} else {
			a.Digests[key] = v
		}
	}
	if r.HarnessError != "" {
		a.Inconcl = append(a.Inconcl, "harness error: "+r.HarnessError)
	}
}

// DriverMain runs a property check end to end and returns the exit status.
func DriverMain(root string, p *Property, tier string, seed uint64) int {
	d := &Driver{Root: root, Prop: p, Tier: tier, Seed: seed, Start: time.Now()}
	d.Agg = &Agg{Monitors: map[string]*MonStat{}, Counters: map[string]int64{}, Maxes: map[string]float64{},
		Sets: map[string]map[string]int{}, Nontrivial: map[string]struct{}{}, Digests: map[string]string{}}
	os.RemoveAll(workDir(root, p.ID))
	os.MkdirAll(workDir(root, p.ID), 0o755)
	os.MkdirAll(evidenceDir(root), 0o755)
	os.Remove(filepath.Join(evidenceDir(root), p.ID+".json"))
	os.RemoveAll(filepath.Join(ReplayRoot(root), p.ID))

	ncpu := runtime.NumCPU()
	if ncpu > 16 {
		ncpu = 16
	}
	if s := os.Getenv("VERIF_SHARDS"); s != "" {
		if n, err := strconv.Atoi(s); err == nil && n > 0 {
			ncpu = n
		}
	}
	timeout := 40 * time.Minute
	if tier == "thorough" {
		timeout = 6 * time.Hour
	}
	variants := append([]Variant{{Name: ""}}, p.Variants...)
	for _, v := range variants {
		if v.Name != "" && strings.HasPrefix(v.Name, "thorough-") && tier != "thorough" {
			continue
		}
		bin, err := d.buildVariant(v)
		if err != nil {
			d.Agg.Inconcl = append(d.Agg.Inconcl, err.Error())
			continue
		}
		n := ncpu
		if v.Shards > 0 {
			n = v.Shards
		}
		d.Agg.VariantsRun = append(d.Agg.VariantsRun, "variant="+v.Name+" shards="+strconv.Itoa(n))
		var wg sync.WaitGroup
		for s := 0; s < n; s++ {
			wg.Add(1)
			go func(s int) {
				defer wg.Done()
				d.runShard(bin, v, s, n, timeout)
			}(s)
		}
		wg.Wait()
		for s := 0; s < n; s++ {
			b, err := os.ReadFile(shardPath(root, p.ID, v.Name, s))
			if err != nil {
				already := false
				for _, m := range d.Agg.Inconcl {
					if strings.Contains(m, fmt.Sprintf("%s/%d", v.Name, s)) {
						already = true
					}
				}
				if !already {
					d.Agg.Inconcl = append(d.Agg.Inconcl, fmt.Sprintf("no result from worker %s/%d", v.Name, s))
				}
				continue
			}
			var r ShardResult
			if err := json.Unmarshal(b, &r); err != nil {
				d.Agg.Inconcl = append(d.Agg.Inconcl, "bad shard result: "+err.Error())
				continue
			}
			d.merge(&r)
		}
	}
	if h := PostHooks[p.ID]; h != nil {
		h(d)
	}
	return d.finish()
}

func (d *Driver) finish() int {
	a := d.Agg
	p := d.Prop
	findings := loadFindings(d.Root)
	type hit struct {
		f finding
		n int
	}
	hits := map[int]*hit{}
	var unlisted []Violation
	for _, v := range a.Violations {
		matched := false
		for i, f := range findings {
			if f.status == "open" && f.property == p.ID && f.monitor == v.Monitor && f.class == v.Class && f.class != "" {
				if hits[i] == nil {
					hits[i] = &hit{f: f}
				}
				hits[i].n++
				matched = true
				break
			}
		}
		if !matched {
			unlisted = append(unlisted, v)
		}
	}
	// required observations
	for _, m := range p.RequiredMonitors {
		st := a.Monitors[m]
		if st == nil || st.Checks == 0 {
			a.Inconcl = append(a.Inconcl, fmt.Sprintf("monitor %s observed no event", m))
		}
	}
	if a.Cases == 0 {
		a.Inconcl = append(a.Inconcl, "no case executed")
	}
	floor := p.MinNontrivial
	if floor < 2 {
		floor = 2
	}
	if len(a.Nontrivial) < floor {
		a.Inconcl = append(a.Inconcl, fmt.Sprintf("only %d distinct non-trivial cases (floor %d)", len(a.Nontrivial), floor))
	}

	// evidence
	cov := map[string]any{}
	cov["evaluations"] = a.Cases
	cov["distinct_nontrivial"] = len(a.Nontrivial)
	cov["rule"] = p.Rule
	var samples []any
	for _, s := range a.Samples {
		samples = append(samples, s)
	}
	if len(samples) == 0 {
		samples = append(samples, "none recorded")
	}
	cov["samples"] = samples
	cov["monitors"] = a.Monitors
	var totalChecks int64
	for _, m := range a.Monitors {
		totalChecks += m.Checks
	}
	cov["monitor_events_total"] = totalChecks
	cov["counters"] = a.Counters
	cov["maxes"] = a.Maxes
	setinfo := map[string]any{}
	for n, s := range a.Sets {
		type kc struct {
			K string
			C int
		}
		var l []kc
		for k, c := range s {
			l = append(l, kc{k, c})
		}
		sort.Slice(l, func(i, j int) bool {
			if l[i].C != l[j].C {
				return l[i].C > l[j].C
			}
			return l[i].K < l[j].K
		})
		top := map[string]int{}
		for i := 0; i < len(l) && i < 25; i++ {
			top[l[i].K] = l[i].C
		}
		setinfo[n] = map[string]any{"distinct": len(s), "top": top}
	}
	cov["distinct_sets"] = setinfo
	cov["variants"] = a.VariantsRun
	cov["worker_deaths"] = a.Deaths
	cov["inconclusive"] = a.Inconcl
	kf := []string{}
	for _, h := range hits {
		kf = append(kf, fmt.Sprintf("%s (hits=%d)", h.f.text, h.n))
	}
	sort.Strings(kf)
	cov["known_finding_hits"] = kf
	level := p.Level
	if level == "" {
		level = "exploration"
	}
	ev := map[string]any{
		"property_id": p.ID, "tier": d.Tier, "seed": d.Seed, "level": level,
		"coverage": cov, "assumptions": p.Assumptions, "wall_s": time.Since(d.Start).Seconds(),
		"violations": len(unlisted),
	}
	b, _ := json.MarshalIndent(ev, "", " ")
	os.WriteFile(filepath.Join(evidenceDir(d.Root), p.ID+".json"), b, 0o644)

	// report
	fmt.Printf("property %s tier=%s seed=%d cases=%d distinct_nontrivial=%d monitor_events=%d wall=%.1fs\n",
		p.ID, d.Tier, d.Seed, a.Cases, len(a.Nontrivial), totalChecks, time.Since(d.Start).Seconds())
	names := make([]string, 0, len(a.Monitors))
	for n := range a.Monitors {
		names = append(names, n)
	}
	sort.Strings(names)
	for _, n := range names {
		m := a.Monitors[n]
		fmt.Printf("  monitor %-30s checks=%-9d fails=%-6d skips=%d\n", n, m.Checks, m.Fails, m.Skips)
	}
	idx := make([]int, 0, len(hits))
	for i := range hits {
		idx = append(idx, i)
	}
	sort.Ints(idx)
	for _, i := range idx {
		h := hits[i]
		fmt.Printf("KNOWN-FINDING: property=%s monitor=%s class=%s %s (hits=%d)\n", p.ID, h.f.monitor, h.f.class, h.f.text, h.n)
	}
	if len(unlisted) > 0 {
		perMon := map[string]int{}
		for _, v := range unlisted {
			perMon[v.Monitor+"|"+v.Class]++
			if perMon[v.Monitor+"|"+v.Class] > 5 {
				continue
			}
			det := strings.ReplaceAll(v.Detail, "\n", " | ")
			if len(det) > 400 {
				det = det[:400]
			}
			fmt.Printf("VIOLATION property=%s replay=%s monitor=%s class=%s case=%s/%d %s\n", p.ID, v.Replay, v.Monitor, v.Class, v.Stream, v.Index, det)
		}
		fmt.Printf("%d unlisted violation(s)\n", len(unlisted))
		return 1
	}
	if len(a.Inconcl) > 0 {
		for _, m := range a.Inconcl {
			if len(m) > 2000 {
				m = m[:2000]
			}
			fmt.Printf("INCONCLUSIVE: %s\n", m)
		}
		return 2
	}
	fmt.Printf("HELD on everything observed: property=%s\n", p.ID)
	return 0
}
