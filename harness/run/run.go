// Package run is the monitor runtime: deterministic case enumeration, sharded
// sacrificial worker processes, journaling, panic attribution, aggregation,
// evidence and known-finding handling. The driver process owns every verdict.
package run

import (
	"crypto/sha256"
	"encoding/hex"
	"encoding/json"
	"fmt"
	"os"
	"path/filepath"
	"runtime"
	"runtime/debug"
	"sort"
	"strings"
	"sync/atomic"
	"syscall"
	"time"
)

// Variant is an extra build/execution flavour of the worker (e.g. the race
// detector build). The base variant "" is always run.
type Variant struct {
	Name       string
	BuildFlags []string // extra go build flags
	Env        []string // extra environment for the workers
	Shards     int      // 0 = default
}

type Property struct {
	ID               string
	Title            string
	Level            string // evidence level (default "exploration")
	Rule             string // how cases are generated and what is non-trivial
	Assumptions      []string
	DeathIsViolation bool // a worker death on a journaled case counts as a violation
	Variants         []Variant
	MinNontrivial    int // floor of distinct non-trivial cases in quick tier; below ⇒ inconclusive
	// CaseCPUSeconds: a single case that consumes more process CPU time than
	// this (default 120 s, i.e. >= 10^4 times the cost of any case on the
	// unchanged tree) is reported as a violation of monitor "terminates".
	// CPU time, not wall-clock: it does not depend on machine load.
	CaseCPUSeconds int
	Run            func(c *Ctx)
	// Classify death: optional class name for a worker death on a case
	RequiredMonitors []string // monitors that must have observed ≥1 check, else inconclusive
}

var registry = map[string]*Property{}

func Register(p *Property) { registry[p.ID] = p }
func Lookup(id string) *Property {
	return registry[id]
}
func IDs() []string {
	var ids []string
	for id := range registry {
		ids = append(ids, id)
	}
	sort.Strings(ids)
	return ids
}

type MonStat struct {
	Checks int64 `json:"checks"`
	Fails  int64 `json:"fails"`
	Skips  int64 `json:"skips"`
}

type Violation struct {
	Monitor string            `json:"monitor"`
	Class   string            `json:"class"`
	Detail  string            `json:"detail"`
	Stream  string            `json:"stream"`
	Index   int               `json:"index"`
	Variant string            `json:"variant,omitempty"`
	Replay  string            `json:"replay"`
	Inputs  map[string]string `json:"inputs,omitempty"`
}

type Sample struct {
	Case     string            `json:"case"`
	Inputs   map[string]string `json:"inputs,omitempty"`
	Observed map[string]string `json:"observed,omitempty"`
}

type ShardResult struct {
	Variant      string                    `json:"variant"`
	Shard        int                       `json:"shard"`
	Cases        int64                     `json:"cases"`
	Monitors     map[string]*MonStat       `json:"monitors"`
	Counters     map[string]int64          `json:"counters"`
	Maxes        map[string]float64        `json:"maxes"`
	Sets         map[string]map[string]int `json:"sets"`
	Nontrivial   []string                  `json:"nontrivial"` // 16-hex-digit hashes
	Samples      []Sample                  `json:"samples"`
	Violations   []Violation               `json:"violations"`
	Digests      map[string]string         `json:"digests,omitempty"`
	HarnessError string                    `json:"harness_error,omitempty"`
	Done         bool                      `json:"done"`
}

// Ctx is the per-worker context handed to Property.Run.
type Ctx struct {
	Prop    *Property
	Tier    string
	Seed    uint64
	Shard   int
	NShards int
	Variant string
	Root    string // /verif

	replay   *ReplaySpec
	skip     map[string]bool
	seq      int64
	res      *ShardResult
	journal  *os.File
	nt       map[uint64]struct{}
	perStrm  map[string]int
	current  atomic.Value // string: case id being run
	curStart atomic.Int64
	Verbose  bool
}

type ReplaySpec struct {
	Property string            `json:"property"`
	Tier     string            `json:"tier"`
	Seed     uint64            `json:"seed"`
	Variant  string            `json:"variant,omitempty"`
	Stream   string            `json:"stream"`
	Index    int               `json:"index"`
	Monitor  string            `json:"monitor"`
	Class    string            `json:"class"`
	Detail   string            `json:"detail"`
	Inputs   map[string]string `json:"inputs,omitempty"`
}

// Quick reports whether the quick tier is running.
func (c *Ctx) Quick() bool { return c.Tier != "thorough" }

// N picks a size by tier.
func (c *Ctx) N(quick, thorough int) int {
	if c.Tier == "thorough" {
		return thorough
	}
	return quick
}

// K is the per-case context.
type K struct {
	c      *Ctx
	Stream string
	Index  int
	Rng    *Rng
	inputs []kv
	obs    []kv
	sample bool
	failed map[string]bool
	ntKey  string
	// Context is appended to the detail of any violation recorded while it is
	// set (e.g. the exact input being fed to the library).
	Context string
	nt      bool
}

type kv struct {
	k string
	v any
}

func caseID(stream string, idx int) string { return fmt.Sprintf("%s/%d", stream, idx) }

// Case runs fn for case (stream, idx) when it belongs to this shard.
func (c *Ctx) Case(stream string, idx int, fn func(k *K)) {
	if c.replay != nil {
		if c.replay.Stream != stream || c.replay.Index != idx {
			return
		}
	} else {
		s := c.seq
		c.seq++
		if int(s%int64(c.NShards)) != c.Shard {
			return
		}
	}
	id := caseID(stream, idx)
	if c.skip[id] {
		return
	}
	k := &K{c: c, Stream: stream, Index: idx, Rng: NewRng(c.Seed, c.Prop.ID, stream, fmt.Sprint(idx))}
	base := stream
	if i := strings.IndexByte(base, ':'); i >= 0 {
		base = base[:i]
	}
	if c.perStrm[base] < 2 || c.replay != nil {
		k.sample = true
	}
	c.perStrm[base]++
	if c.journal != nil {
		fmt.Fprintf(c.journal, "B %s\n", id)
	}
	c.current.Store(id)
	c.curStart.Store(time.Now().UnixNano())
	func() {
		defer func() {
			if r := recover(); r != nil {
				k.handlePanic("nopanic", r, debug.Stack(), true)
			}
		}()
		fn(k)
	}()
	c.current.Store("")
	if c.journal != nil {
		fmt.Fprintf(c.journal, "E %s\n", id)
	}
	c.res.Cases++
	if k.nt {
		h := sha256.Sum256([]byte(k.ntKey))
		var u uint64
		for i := 0; i < 8; i++ {
			u = u<<8 | uint64(h[i])
		}
		c.nt[u] = struct{}{}
	}
	if k.sample && len(c.res.Samples) < 40 {
		s := Sample{Case: id, Inputs: renderKVs(k.inputs), Observed: renderKVs(k.obs)}
		c.res.Samples = append(c.res.Samples, s)
	}
}

// libFrame decides, from a panic stack, whether the panic originated in the
// library (true) or in harness code (false).
func libFrame(stack []byte) (bool, string) {
	lines := strings.Split(string(stack), "\n")
	// skip up to the frame after "panic("
	start := 0
	for i, l := range lines {
		if strings.HasPrefix(l, "panic(") {
			start = i + 2
		}
	}
	for i := start; i < len(lines); i++ {
		l := lines[i]
		if strings.HasPrefix(l, "\t") || l == "" {
			continue
		}
		if strings.HasPrefix(l, "github.com/peterstace/simplefeatures/") {
			fn := l
			if j := strings.LastIndexByte(fn, '('); j > 0 {
				fn = fn[:j]
			}
			fn = strings.TrimPrefix(fn, "github.com/peterstace/simplefeatures/")
			return true, fn
		}
		if strings.HasPrefix(l, "verif/") || strings.HasPrefix(l, "main.") {
			return false, l
		}
	}
	return false, ""
}

func (k *K) handlePanic(monitor string, r any, stack []byte, fatalIfHarness bool) {
	lib, fn := libFrame(stack)
	if lib {
		st := string(stack)
		if len(st) > 3000 {
			st = st[:3000]
		}
		k.fail(monitor, "panic:"+fn, fmt.Sprintf("panic: %v\n%s", r, st))
		return
	}
	msg := fmt.Sprintf("harness panic in case %s/%d: %v\n%s", k.Stream, k.Index, r, stack)
	k.c.res.HarnessError = msg
	fmt.Fprintln(os.Stderr, msg)
	if fatalIfHarness {
		k.c.flush()
		os.Exit(4)
	}
}

// Lib runs f (library calls) under recover. A panic raised inside the library
// is recorded as a violation of monitor and true is returned.
func (k *K) Lib(monitor string, f func()) (panicked bool) {
	defer func() {
		if r := recover(); r != nil {
			panicked = true
			k.handlePanic(monitor, r, debug.Stack(), true)
		}
	}()
	f()
	return false
}

// In records a named input of the case (rendered lazily).
func (k *K) In(name string, v any) { k.inputs = append(k.inputs, kv{name, v}) }

// Obs records an observed output, shown in samples and replays.
func (k *K) Obs(name string, v any) {
	if k.sample || len(k.failed) > 0 {
		k.obs = append(k.obs, kv{name, v})
	}
}

// Mark journals a sub-step of the running case (e.g. the input about to be
// passed to the library) so that a worker death can be attributed precisely.
func (k *K) Mark(detail string) {
	if k.c.journal != nil {
		fmt.Fprintf(k.c.journal, "M %s\n", detail)
	}
}

// Sampled reports whether this case will be written out as an evidence sample.
func (k *K) Sampled() bool { return k.sample }

// Nontrivial marks the case as non-trivial; key identifies it for distinctness.
func (k *K) Nontrivial(key string) { k.nt = true; k.ntKey = key }

func (k *K) mon(name string) *MonStat {
	m := k.c.res.Monitors[name]
	if m == nil {
		m = &MonStat{}
		k.c.res.Monitors[name] = m
	}
	return m
}

// Check counts one evaluation of a monitor and records a violation if !ok.
func (k *K) Check(monitor string, ok bool, format string, args ...any) bool {
	k.mon(monitor).Checks++
	if !ok {
		k.fail(monitor, "", fmt.Sprintf(format, args...))
	}
	return ok
}

// CheckClass is Check with an explicit violation class (for known-finding matching).
func (k *K) CheckClass(monitor, class string, ok bool, format string, args ...any) bool {
	k.mon(monitor).Checks++
	if !ok {
		k.fail(monitor, class, fmt.Sprintf(format, args...))
	}
	return ok
}

func (k *K) Skip(monitor string) { k.mon(monitor).Skips++ }

func (k *K) Count(name string, n int64) { k.c.res.Counters[name] += n }
func (k *K) Max(name string, v float64) {
	if old, ok := k.c.res.Maxes[name]; !ok || v > old {
		k.c.res.Maxes[name] = v
	}
}

// Distinct records a value in a named set (e.g. DE-9IM matrices observed).
func (k *K) Distinct(set, value string) {
	s := k.c.res.Sets[set]
	if s == nil {
		s = map[string]int{}
		k.c.res.Sets[set] = s
	}
	if _, ok := s[value]; !ok && len(s) >= 20000 {
		return
	}
	s[value]++
}

// Digest records a result digest that must be identical across processes/variants.
func (k *K) Digest(key, val string) {
	if k.c.res.Digests == nil {
		k.c.res.Digests = map[string]string{}
	}
	k.c.res.Digests[key] = val
}

func (k *K) fail(monitor, class, detail string) {
	m := k.mon(monitor)
	m.Fails++
	if k.failed == nil {
		k.failed = map[string]bool{}
	}
	fk := monitor + "|" + class
	if k.failed[fk] {
		return
	}
	k.failed[fk] = true
	if k.Context != "" {
		c := k.Context
		if len(c) > 3000 {
			c = c[:3000] + "…"
		}
		detail = "context: " + c + "\n" + detail
	}
	if len(detail) > 9000 {
		detail = detail[:9000] + "…"
	}
	// cap stored violations per monitor/class in one shard
	n := 0
	for _, v := range k.c.res.Violations {
		if v.Monitor == monitor && v.Class == class {
			n++
		}
	}
	k.c.res.Counters["violations_total"]++
	if n >= 8 {
		return
	}
	inputs := renderKVs(k.inputs)
	spec := ReplaySpec{Property: k.c.Prop.ID, Tier: k.c.Tier, Seed: k.c.Seed, Variant: k.c.Variant,
		Stream: k.Stream, Index: k.Index, Monitor: monitor, Class: class, Detail: detail, Inputs: inputs}
	b, _ := json.MarshalIndent(spec, "", " ")
	h := sha256.Sum256([]byte(fmt.Sprintf("%s|%s|%s|%d|%d|%s", k.c.Prop.ID, monitor, k.Stream, k.Index, k.c.Seed, k.c.Tier)))
	dir := filepath.Join(ReplayRoot(k.c.Root), k.c.Prop.ID)
	os.MkdirAll(dir, 0o755)
	path := filepath.Join(dir, hex.EncodeToString(h[:6])+".json")
	if k.c.replay == nil {
		os.WriteFile(path, b, 0o644)
	}
	k.c.res.Violations = append(k.c.res.Violations, Violation{Monitor: monitor, Class: class, Detail: detail,
		Stream: k.Stream, Index: k.Index, Variant: k.c.Variant, Replay: path, Inputs: inputs})
	if k.c.Verbose {
		fmt.Printf("  FAIL monitor=%s class=%s %s\n", monitor, class, detail)
	}
}

func renderKVs(kvs []kv) map[string]string {
	if len(kvs) == 0 {
		return nil
	}
	out := map[string]string{}
	for _, e := range kvs {
		out[e.k] = Render(e.v)
	}
	return out
}

// Render turns an input/observation into text.
func Render(v any) (s string) {
	defer func() {
		if r := recover(); r != nil {
			s = fmt.Sprintf("<render panic: %v>", r)
		}
	}()
	switch t := v.(type) {
	case nil:
		return "nil"
	case string:
		s = t
	case []byte:
		s = "hex:" + hex.EncodeToString(t)
	case func() string:
		s = t()
	case interface{ AsText() string }:
		s = t.AsText()
	case error:
		s = "error: " + t.Error()
	case fmt.Stringer:
		s = t.String()
	default:
		s = fmt.Sprintf("%v", v)
	}
	if len(s) > 4000 {
		s = s[:4000] + "…"
	}
	return s
}

func (c *Ctx) flush() {
	c.res.Nontrivial = c.res.Nontrivial[:0]
	for u := range c.nt {
		c.res.Nontrivial = append(c.res.Nontrivial, fmt.Sprintf("%016x", u))
	}
	b, _ := json.Marshal(c.res)
	path := shardPath(c.Root, c.Prop.ID, c.Variant, c.Shard)
	os.WriteFile(path+".tmp", b, 0o644)
	os.Rename(path+".tmp", path)
}

// WorkRoot / ReplayRoot: per-invocation scratch and witness directories. An
// instance name (VERIF_INSTANCE) isolates concurrent invocations of the checks
// (e.g. a mutant sweep next to interactive runs).
func WorkRoot(root string) string {
	if i := os.Getenv("VERIF_INSTANCE"); i != "" {
		return filepath.Join(root, "work", "inst-"+i)
	}
	return filepath.Join(root, "work")
}
func ReplayRoot(root string) string {
	if i := os.Getenv("VERIF_INSTANCE"); i != "" {
		return filepath.Join(root, "work", "inst-"+i, "replays")
	}
	return filepath.Join(root, "replays")
}
func workDir(root, prop string) string { return filepath.Join(WorkRoot(root), prop) }
func shardPath(root, prop, variant string, shard int) string {
	return filepath.Join(workDir(root, prop), fmt.Sprintf("shard-%s-%d.json", variant, shard))
}
func journalPath(root, prop, variant string, shard int) string {
	return filepath.Join(workDir(root, prop), fmt.Sprintf("journal-%s-%d.txt", variant, shard))
}

func cpuTime() time.Duration {
	var ru syscall.Rusage
	if err := syscall.Getrusage(syscall.RUSAGE_SELF, &ru); err != nil {
		return 0
	}
	return time.Duration(ru.Utime.Nano() + ru.Stime.Nano())
}

// NewStandaloneK returns a case context that is not attached to a worker (no
// journal, no result file); used by fuzz targets that reuse the monitors.
func NewStandaloneK(p *Property, stream string) *K {
	c := &Ctx{Prop: p, Tier: "thorough", Seed: 0, Shard: 0, NShards: 1, Root: os.TempDir(),
		skip: map[string]bool{}, nt: map[uint64]struct{}{}, perStrm: map[string]int{}, replay: &ReplaySpec{Stream: stream}}
	c.res = &ShardResult{Monitors: map[string]*MonStat{}, Counters: map[string]int64{}, Maxes: map[string]float64{}, Sets: map[string]map[string]int{}}
	c.current.Store("")
	return &K{c: c, Stream: stream, Rng: NewRng(0, stream)}
}

// Violations lists what the monitors recorded on this context so far.
func (k *K) Violations() []Violation { return k.c.res.Violations }

// WorkerMain runs one shard.
func WorkerMain(root string, p *Property, tier string, seed uint64, variant string, shard, nshards int, skipList []string) {
	c := &Ctx{Prop: p, Tier: tier, Seed: seed, Shard: shard, NShards: nshards, Variant: variant, Root: root,
		skip: map[string]bool{}, nt: map[uint64]struct{}{}, perStrm: map[string]int{}}
	for _, s := range skipList {
		c.skip[s] = true
	}
	c.res = &ShardResult{Variant: variant, Shard: shard, Monitors: map[string]*MonStat{}, Counters: map[string]int64{},
		Maxes: map[string]float64{}, Sets: map[string]map[string]int{}}
	os.MkdirAll(workDir(root, p.ID), 0o755)
	j, err := os.Create(journalPath(root, p.ID, variant, shard))
	if err != nil {
		fmt.Fprintln(os.Stderr, "journal:", err)
		os.Exit(4)
	}
	c.journal = j
	c.current.Store("")
	// stuck-case watchdog: a single case running for more than 10 minutes is
	// reported (inconclusive), never judged.
	budget := time.Duration(p.CaseCPUSeconds) * time.Second
	if budget == 0 {
		budget = 120 * time.Second
	}
	go func() {
		lastID, cpuAtStart := "", cpuTime()
		for {
			time.Sleep(2 * time.Second)
			id, _ := c.current.Load().(string)
			if id != lastID {
				lastID, cpuAtStart = id, cpuTime()
			}
			if id == "" {
				continue
			}
			if used := cpuTime() - cpuAtStart; used > budget {
				fmt.Fprintf(os.Stderr, "CPU-BUDGET case %s consumed %v of CPU time (budget %v)\n", id, used, budget)
				buf := make([]byte, 1<<16)
				n := runtime.Stack(buf, true)
				os.Stderr.Write(buf[:n])
				os.Exit(5)
			}
			if time.Since(time.Unix(0, c.curStart.Load())) > 30*time.Minute {
				fmt.Fprintf(os.Stderr, "STUCK case %s (>30min wall-clock)\n", id)
				buf := make([]byte, 1<<16)
				n := runtime.Stack(buf, true)
				os.Stderr.Write(buf[:n])
				os.Exit(3)
			}
		}
	}()
	p.Run(c)
	c.res.Done = true
	c.flush()
	j.Close()
}

// ReplayMain re-runs exactly one recorded case in-process and reports.
func ReplayMain(root string, path string) int {
	b, err := os.ReadFile(path)
	if err != nil {
		fmt.Fprintln(os.Stderr, err)
		return 2
	}
	var spec ReplaySpec
	if err := json.Unmarshal(b, &spec); err != nil {
		// not a case replay (e.g. a race-detector report or a cross-process digest
		// conflict): show the recorded witness; reproducing it means re-running the check
		fmt.Printf("recorded witness (not a single-case replay):\n%s\n", b)
		return 1
	}
	p := Lookup(spec.Property)
	if p == nil {
		fmt.Fprintln(os.Stderr, "unknown property", spec.Property)
		return 2
	}
	c := &Ctx{Prop: p, Tier: spec.Tier, Seed: spec.Seed, Shard: 0, NShards: 1, Variant: spec.Variant, Root: root,
		skip: map[string]bool{}, nt: map[uint64]struct{}{}, perStrm: map[string]int{}, replay: &spec, Verbose: true}
	c.res = &ShardResult{Monitors: map[string]*MonStat{}, Counters: map[string]int64{}, Maxes: map[string]float64{}, Sets: map[string]map[string]int{}}
	c.current.Store("")
	fmt.Printf("replaying %s case %s/%d (seed %d tier %s) recorded monitor=%s\n", spec.Property, spec.Stream, spec.Index, spec.Seed, spec.Tier, spec.Monitor)
	p.Run(c)
	if c.res.Cases == 0 {
		fmt.Println("INCONCLUSIVE: case not reached by enumeration")
		return 2
	}
	for _, s := range c.res.Samples {
		keys := make([]string, 0, len(s.Inputs))
		for k := range s.Inputs {
			keys = append(keys, k)
		}
		sort.Strings(keys)
		for _, k := range keys {
			fmt.Printf("  input %s = %s\n", k, s.Inputs[k])
		}
		keys = keys[:0]
		for k := range s.Observed {
			keys = append(keys, k)
		}
		sort.Strings(keys)
		for _, k := range keys {
			fmt.Printf("  observed %s = %s\n", k, s.Observed[k])
		}
	}
	names := make([]string, 0)
	for n := range c.res.Monitors {
		names = append(names, n)
	}
	sort.Strings(names)
	for _, n := range names {
		m := c.res.Monitors[n]
		fmt.Printf("  monitor %-28s checks=%d fails=%d skips=%d\n", n, m.Checks, m.Fails, m.Skips)
	}
	if len(c.res.Violations) > 0 {
		for _, v := range c.res.Violations {
			fmt.Printf("VIOLATION property=%s replay=%s monitor=%s class=%s\n", spec.Property, path, v.Monitor, v.Class)
		}
		return 1
	}
	fmt.Println("no violation reproduced")
	return 0
}
