package exact

import (
	"fmt"
	"math"
	"math/big"
	"sort"
)

// Edge is an elementary edge of the arrangement (no vertex in its interior).
type Edge struct {
	U, V int   // vertex indices
	Lo   int   // face below (non-vertical) or to the left (vertical)
	Hi   int   // face above / to the right
	Tags []int // carriers (input segment tags)
	Vert bool
}

// Trap is a trapezoid of the slab decomposition.
type Trap struct {
	Face   int
	Sample Pt
	Area   *big.Rat
}

// Arr is the exact planar arrangement of a set of segments and points.
// Face 0 is the unbounded outside face.
type Arr struct {
	V      []Pt
	E      []Edge
	Traps  []Trap
	NFaces int
	VEdges [][]int // incident edges per vertex
	VFace  []int   // containing face for vertices without incident edges, else -1
	Err    string  // non-empty: internal inconsistency (oracle must not be trusted)
}

type vkey [2]float64

type cutT struct {
	y0, ym, y1 *big.Rat
	edge       int
}

// BuildArr builds the arrangement. Isolated points must be passed in pts so
// that they become vertices.
func BuildArr(segs []Seg, pts []Pt) *Arr {
	a := &Arr{}
	idx := map[vkey][]int{}
	addV := func(p Pt) int {
		k := vkey{p.FX, p.FY}
		for _, i := range idx[k] {
			if a.V[i].Eq(p) {
				return i
			}
		}
		idx[k] = append(idx[k], len(a.V))
		a.V = append(a.V, p)
		return len(a.V) - 1
	}
	for _, s := range segs {
		addV(s.A)
		addV(s.B)
	}
	for _, p := range pts {
		addV(p)
	}
	// pairwise intersections with a float bounding-box prefilter
	type bb struct{ x0, x1, y0, y1 float64 }
	bbs := make([]bb, len(segs))
	for i, s := range segs {
		m := 1e-12 * (math.Abs(s.A.FX) + math.Abs(s.A.FY) + math.Abs(s.B.FX) + math.Abs(s.B.FY) + 1e-300)
		bbs[i] = bb{math.Min(s.A.FX, s.B.FX) - m, math.Max(s.A.FX, s.B.FX) + m, math.Min(s.A.FY, s.B.FY) - m, math.Max(s.A.FY, s.B.FY) + m}
	}
	for i := range segs {
		for j := i + 1; j < len(segs); j++ {
			if bbs[i].x1 < bbs[j].x0 || bbs[j].x1 < bbs[i].x0 || bbs[i].y1 < bbs[j].y0 || bbs[j].y1 < bbs[i].y0 {
				continue
			}
			if k, p := SegInter(segs[i].A, segs[i].B, segs[j].A, segs[j].B); k == 1 {
				addV(p)
			}
		}
	}
	// elementary edges
	type ekey [2]int
	eidx := map[ekey]int{}
	for si, s := range segs {
		var on []int
		b := bbs[si]
		for vi, v := range a.V {
			if v.FX < b.x0 || v.FX > b.x1 || v.FY < b.y0 || v.FY > b.y1 {
				continue
			}
			if OnSeg(s.A, s.B, v) {
				on = append(on, vi)
			}
		}
		// order along the segment by the dominant axis
		byX := CmpX(s.A, s.B) != 0
		sort.Slice(on, func(i, j int) bool {
			p, q := a.V[on[i]], a.V[on[j]]
			if byX {
				return CmpX(p, q) < 0
			}
			return CmpY(p, q) < 0
		})
		for i := 0; i+1 < len(on); i++ {
			u, v := on[i], on[i+1]
			if u == v {
				continue
			}
			if u > v {
				u, v = v, u
			}
			if ei, ok := eidx[ekey{u, v}]; ok {
				a.E[ei].Tags = append(a.E[ei].Tags, s.Tag)
				continue
			}
			eidx[ekey{u, v}] = len(a.E)
			a.E = append(a.E, Edge{U: u, V: v, Lo: -1, Hi: -1, Tags: []int{s.Tag}, Vert: CmpX(a.V[u], a.V[v]) == 0})
		}
	}
	a.VEdges = make([][]int, len(a.V))
	for ei, e := range a.E {
		a.VEdges[e.U] = append(a.VEdges[e.U], ei)
		a.VEdges[e.V] = append(a.VEdges[e.V], ei)
	}
	a.buildSlabs()
	return a
}

type gapRef struct{ slab, gap int }

func (a *Arr) buildSlabs() {
	// distinct abscissae
	order := make([]int, len(a.V))
	for i := range order {
		order[i] = i
	}
	sort.Slice(order, func(i, j int) bool { return CmpX(a.V[order[i]], a.V[order[j]]) < 0 })
	var ux []Pt // representative point per distinct abscissa
	for _, vi := range order {
		if len(ux) == 0 || CmpX(ux[len(ux)-1], a.V[vi]) != 0 {
			ux = append(ux, a.V[vi])
		}
	}
	a.VFace = make([]int, len(a.V))
	for i := range a.VFace {
		a.VFace[i] = -1
	}
	nslab := len(ux) - 1
	if nslab < 0 {
		nslab = 0
	}
	slabs := make([][]cutT, nslab)
	// node ids for union-find: 0 = outside; bounded gaps numbered from 1
	gapNode := make([][]int, nslab) // per slab: node id per gap index 0..len(cuts); unbounded = 0
	parent := []int{0}
	var find func(int) int
	find = func(x int) int {
		for parent[x] != x {
			parent[x] = parent[parent[x]]
			x = parent[x]
		}
		return x
	}
	union := func(x, y int) {
		rx, ry := find(x), find(y)
		if rx == ry {
			return
		}
		if rx < ry {
			parent[ry] = rx
		} else {
			parent[rx] = ry
		}
	}
	type trapTmp struct {
		node   int
		sample Pt
		area   *big.Rat
	}
	var traps []trapTmp
	// assign edges to slabs: sort non-vertical edges by left x to avoid scanning all per slab
	xIndex := func(p Pt) int { // index in ux with equal abscissa
		lo, hi := 0, len(ux)-1
		for lo < hi {
			m := (lo + hi) / 2
			if CmpX(ux[m], p) < 0 {
				lo = m + 1
			} else {
				hi = m
			}
		}
		return lo
	}
	type espan struct{ l, r int }
	spans := make([]espan, len(a.E))
	for ei, e := range a.E {
		l, r := xIndex(a.V[e.U]), xIndex(a.V[e.V])
		if l > r {
			l, r = r, l
		}
		spans[ei] = espan{l, r}
	}
	for i := 0; i < nslab; i++ {
		x0, x1 := ux[i].X, ux[i+1].X
		xm := half(add(x0, x1))
		var cuts []cutT
		for ei, e := range a.E {
			if e.Vert || spans[ei].l > i || spans[ei].r < i+1 {
				continue
			}
			p, q := a.V[e.U], a.V[e.V]
			if CmpX(p, q) > 0 {
				p, q = q, p
			}
			var y0, y1, ym *big.Rat
			if spans[ei].l == i {
				y0 = p.Y
			}
			if spans[ei].r == i+1 {
				y1 = q.Y
			}
			sl := quo(sub(q.Y, p.Y), sub(q.X, p.X))
			at := func(x *big.Rat) *big.Rat { return add(p.Y, mul(sl, sub(x, p.X))) }
			if y0 == nil {
				y0 = at(x0)
			}
			if y1 == nil {
				y1 = at(x1)
			}
			ym = half(add(y0, y1))
			cuts = append(cuts, cutT{y0, ym, y1, ei})
		}
		sort.Slice(cuts, func(i, j int) bool { return cuts[i].ym.Cmp(cuts[j].ym) < 0 })
		for j := 0; j+1 < len(cuts); j++ {
			if cuts[j].ym.Cmp(cuts[j+1].ym) == 0 {
				a.Err = fmt.Sprintf("two elementary edges meet inside slab %d", i)
			}
		}
		slabs[i] = cuts
		gn := make([]int, len(cuts)+1)
		w := sub(x1, x0)
		for j := 1; j < len(cuts); j++ {
			id := len(parent)
			parent = append(parent, id)
			gn[j] = id
			lo, hi := cuts[j-1], cuts[j]
			h := add(sub(hi.y0, lo.y0), sub(hi.y1, lo.y1))
			traps = append(traps, trapTmp{id, PR(xm, half(add(lo.ym, hi.ym))), half(mul(w, h))})
		}
		gapNode[i] = gn
	}
	// vertical edges grouped by wall index
	vertAt := map[int][]int{}
	for ei, e := range a.E {
		if e.Vert {
			vertAt[spans[ei].l] = append(vertAt[spans[ei].l], ei)
		}
	}
	// interval helper: nil = infinite
	lessEq := func(a, b *big.Rat) bool { return a.Cmp(b) <= 0 }
	// merge gaps across interior walls
	for wall := 0; wall <= nslab && nslab > 0; wall++ {
		// slab wall-1 on the left, slab wall on the right; beyond the ends
		// there is a virtual slab without cuts whose single gap is the outside
		var L, Rr []cutT
		gnL, gnR := []int{0}, []int{0}
		if wall-1 >= 0 {
			L, gnL = slabs[wall-1], gapNode[wall-1]
		}
		if wall < nslab {
			Rr, gnR = slabs[wall], gapNode[wall]
		}
		// vertical closed intervals on this wall, sorted
		type iv struct{ lo, hi *big.Rat }
		var vs []iv
		for _, ei := range vertAt[wall] {
			p, q := a.V[a.E[ei].U].Y, a.V[a.E[ei].V].Y
			if p.Cmp(q) > 0 {
				p, q = q, p
			}
			vs = append(vs, iv{p, q})
		}
		sort.Slice(vs, func(i, j int) bool { return vs[i].lo.Cmp(vs[j].lo) < 0 })
		gapIv := func(cuts []cutT, g int, right bool) (lo, hi *big.Rat) {
			// gap g lies between cut g-1 and cut g
			get := func(c cutT) *big.Rat {
				if right {
					return c.y0
				}
				return c.y1
			}
			if g-1 >= 0 {
				lo = get(cuts[g-1])
			}
			if g < len(cuts) {
				hi = get(cuts[g])
			}
			return
		}
		for gl := 0; gl <= len(L); gl++ {
			llo, lhi := gapIv(L, gl, false)
			for gr := 0; gr <= len(Rr); gr++ {
				rlo, rhi := gapIv(Rr, gr, true)
				nl, nr := gnL[gl], gnR[gr]
				if find(nl) == find(nr) {
					continue
				}
				// open intersection
				lo, hi := llo, lhi
				if lo == nil || (rlo != nil && rlo.Cmp(lo) > 0) {
					lo = rlo
				}
				if hi == nil || (rhi != nil && rhi.Cmp(hi) < 0) {
					hi = rhi
				}
				if lo != nil && hi != nil && lo.Cmp(hi) >= 0 {
					continue
				}
				// is (lo,hi) completely covered by vertical edges?
				covered := false
				if lo != nil && hi != nil {
					cur := lo
					for _, v := range vs {
						if lessEq(v.hi, cur) {
							continue
						}
						if lessEq(v.lo, cur) {
							cur = v.hi
							if lessEq(hi, cur) {
								break
							}
						} else {
							break
						}
					}
					covered = lessEq(hi, cur)
				}
				if !covered {
					union(nl, nr)
				}
			}
		}
	}
	// final face numbering
	faceOf := map[int]int{0: 0}
	a.NFaces = 1
	fid := func(node int) int {
		r := find(node)
		if f, ok := faceOf[r]; ok {
			return f
		}
		faceOf[r] = a.NFaces
		a.NFaces++
		return faceOf[r]
	}
	fid(0)
	for _, t := range traps {
		a.Traps = append(a.Traps, Trap{Face: fid(t.node), Sample: t.sample, Area: t.area})
	}
	// edge → faces
	for i := 0; i < nslab; i++ {
		for j, c := range slabs[i] {
			lo, hi := fid(gapNode[i][j]), fid(gapNode[i][j+1])
			e := &a.E[c.edge]
			if e.Lo == -1 {
				e.Lo, e.Hi = lo, hi
			} else if e.Lo != lo || e.Hi != hi {
				a.Err = fmt.Sprintf("edge %d sees different faces in different slabs", c.edge)
			}
		}
	}
	// locate an ordinate on a wall in the slab on its left/right
	faceAt := func(wall int, y *big.Rat, left bool) int {
		var si int
		if left {
			si = wall - 1
		} else {
			si = wall
		}
		if si < 0 || si >= nslab {
			return 0
		}
		cuts := slabs[si]
		for g := 0; g <= len(cuts); g++ {
			var lo, hi *big.Rat
			if g-1 >= 0 {
				if left {
					lo = cuts[g-1].y1
				} else {
					lo = cuts[g-1].y0
				}
			}
			if g < len(cuts) {
				if left {
					hi = cuts[g].y1
				} else {
					hi = cuts[g].y0
				}
			}
			if (lo == nil || lo.Cmp(y) < 0) && (hi == nil || y.Cmp(hi) < 0) {
				return fid(gapNode[si][g])
			}
		}
		return -2 // on a cut end: caller error
	}
	for ei := range a.E {
		e := &a.E[ei]
		if !e.Vert {
			if e.Lo == -1 {
				a.Err = fmt.Sprintf("non-vertical edge %d not in any slab", ei)
			}
			continue
		}
		ym := half(add(a.V[e.U].Y, a.V[e.V].Y))
		wall := spans[ei].l
		e.Lo = faceAt(wall, ym, true)
		e.Hi = faceAt(wall, ym, false)
		if e.Lo < 0 || e.Hi < 0 {
			a.Err = fmt.Sprintf("vertical edge %d face lookup failed", ei)
		}
	}
	for vi, v := range a.V {
		if len(a.VEdges[vi]) != 0 {
			continue
		}
		wall := xIndex(v)
		fl, fr := faceAt(wall, v.Y, true), faceAt(wall, v.Y, false)
		if fl < 0 || fr < 0 || fl != fr {
			a.Err = fmt.Sprintf("edgeless vertex %d: faces %d/%d", vi, fl, fr)
			fl = 0
		}
		a.VFace[vi] = fl
	}
}

// FaceSamples returns one sample point per bounded face (index = face id;
// index 0 unused) and per-face exact area.
func (a *Arr) FaceSamples() ([]Pt, []*big.Rat) {
	s := make([]Pt, a.NFaces)
	ar := make([]*big.Rat, a.NFaces)
	for i := range ar {
		ar[i] = new(big.Rat)
	}
	seen := make([]bool, a.NFaces)
	for _, t := range a.Traps {
		if !seen[t.Face] {
			seen[t.Face] = true
			s[t.Face] = t.Sample
		}
		ar[t.Face].Add(ar[t.Face], t.Area)
	}
	return s, ar
}
