package exact

import (
	"math"
	"math/big"
)

// Joint builds the joint arrangement of one or two shapes. Tags of b's
// segments are offset by 1<<20.
func Joint(a, b *Shape) *Arr {
	var segs []Seg
	var pts []Pt
	if a != nil {
		segs = append(segs, a.Segs(0)...)
		pts = append(pts, a.IsoPts()...)
	}
	if b != nil {
		segs = append(segs, b.Segs(1<<20)...)
		pts = append(pts, b.IsoPts()...)
	}
	return BuildArr(segs, pts)
}

// Relate computes the DE-9IM matrix of (a,b) from the definitions. Empty
// operands are handled by the same cell rule (their locate is always E).
func Relate(a, b *Shape) (string, *Arr) {
	arr := Joint(a, b)
	im := [9]byte{'F', 'F', 'F', 'F', 'F', 'F', 'F', 'F', '2'}
	set := func(p Pt, d byte) {
		i := 3*a.Locate(p) + b.Locate(p)
		if im[i] == 'F' || im[i] < d {
			im[i] = d
		}
	}
	for _, v := range arr.V {
		set(v, '0')
	}
	for _, e := range arr.E {
		set(Mid(arr.V[e.U], arr.V[e.V]), '1')
	}
	fs, _ := arr.FaceSamples()
	for f := 1; f < arr.NFaces; f++ {
		set(fs[f], '2')
	}
	return string(im[:]), arr
}

// Intersects: some cell lies in both.
func Intersects(a, b *Shape) bool {
	arr := Joint(a, b)
	for _, v := range arr.V {
		if a.In(v) && b.In(v) {
			return true
		}
	}
	for _, e := range arr.E {
		m := Mid(arr.V[e.U], arr.V[e.V])
		if a.In(m) && b.In(m) {
			return true
		}
	}
	fs, _ := arr.FaceSamples()
	for f := 1; f < arr.NFaces; f++ {
		if a.In(fs[f]) && b.In(fs[f]) {
			return true
		}
	}
	return false
}

// Cell is one cell of the arrangement with its membership in S=op(inA,inB)
// and in the closure cl(S).
type Cell struct {
	Dim    int
	Sample Pt
	InS    bool
	InCl   bool
	A, B   bool
}

// Decomp is the exact decomposition of cl(op(inA,inB)).
type Decomp struct {
	Arr      *Arr
	Cells    []Cell
	Area     *big.Rat
	Length   float64 // lineal remainder
	NEdges   int     // edges in the lineal remainder
	Points   []Pt    // isolated points
	Overlap  bool    // some cell belongs to both closures
	NewVerts int     // intersection vertices that are vertices of neither operand
}

// JC is the joint arrangement of two shapes with the membership of every
// cell in each operand precomputed, so several Boolean combinations can be
// decomposed without rebuilding it.
type JC struct {
	Arr          *Arr
	A, B         *Shape
	fs           []Pt
	far          []*big.Rat
	FaceA, FaceB []bool
	EdgeA, EdgeB []bool
	VertA, VertB []bool
	EdgeMid      []Pt
	Overlap      bool // some cell belongs to both operands
}

func NewJC(a, b *Shape) *JC {
	arr := Joint(a, b)
	j := &JC{Arr: arr, A: a, B: b}
	j.fs, j.far = arr.FaceSamples()
	j.FaceA, j.FaceB = make([]bool, arr.NFaces), make([]bool, arr.NFaces)
	for f := 1; f < arr.NFaces; f++ {
		j.FaceA[f], j.FaceB[f] = a.In(j.fs[f]), b.In(j.fs[f])
		if j.FaceA[f] && j.FaceB[f] {
			j.Overlap = true
		}
	}
	j.EdgeA, j.EdgeB = make([]bool, len(arr.E)), make([]bool, len(arr.E))
	j.EdgeMid = make([]Pt, len(arr.E))
	for ei, e := range arr.E {
		m := Mid(arr.V[e.U], arr.V[e.V])
		j.EdgeMid[ei] = m
		j.EdgeA[ei], j.EdgeB[ei] = a.In(m), b.In(m)
		if j.EdgeA[ei] && j.EdgeB[ei] {
			j.Overlap = true
		}
	}
	j.VertA, j.VertB = make([]bool, len(arr.V)), make([]bool, len(arr.V))
	for vi, v := range arr.V {
		j.VertA[vi], j.VertB[vi] = a.In(v), b.In(v)
		if j.VertA[vi] && j.VertB[vi] {
			j.Overlap = true
		}
	}
	return j
}

// Decompose evaluates S = op(in a, in b) and the decomposition of cl(S).
func (j *JC) Decompose(op func(x, y bool) bool) *Decomp {
	arr := j.Arr
	d := &Decomp{Arr: arr, Area: new(big.Rat), Overlap: j.Overlap}
	fIn := make([]bool, arr.NFaces)
	for f := 1; f < arr.NFaces; f++ {
		fIn[f] = op(j.FaceA[f], j.FaceB[f])
		if fIn[f] {
			d.Area.Add(d.Area, j.far[f])
		}
		d.Cells = append(d.Cells, Cell{Dim: 2, Sample: j.fs[f], InS: fIn[f], InCl: fIn[f], A: j.FaceA[f], B: j.FaceB[f]})
	}
	edgeCl := make([]bool, len(arr.E))
	length := new(big.Float).SetPrec(200)
	for ei, e := range arr.E {
		s := op(j.EdgeA[ei], j.EdgeB[ei])
		l, r := fIn[e.Lo], fIn[e.Hi]
		edgeCl[ei] = s || l || r
		if s && !l && !r {
			length.Add(length, SqrtBig(DistSq(arr.V[e.U], arr.V[e.V])))
			d.NEdges++
		}
		d.Cells = append(d.Cells, Cell{Dim: 1, Sample: j.EdgeMid[ei], InS: s, InCl: edgeCl[ei], A: j.EdgeA[ei], B: j.EdgeB[ei]})
	}
	d.Length, _ = length.Float64()
	for vi, v := range arr.V {
		s := op(j.VertA[vi], j.VertB[vi])
		covered := false
		for _, ei := range arr.VEdges[vi] {
			if edgeCl[ei] {
				covered = true
			}
		}
		if len(arr.VEdges[vi]) == 0 && fIn[arr.VFace[vi]] {
			covered = true
		}
		if s && !covered {
			d.Points = append(d.Points, v)
		}
		d.Cells = append(d.Cells, Cell{Dim: 0, Sample: v, InS: s, InCl: s || covered, A: j.VertA[vi], B: j.VertB[vi]})
	}
	return d
}

// BoolOp evaluates S = op(in a, in b) on the joint arrangement.
func BoolOp(a, b *Shape, op func(x, y bool) bool) *Decomp { return NewJC(a, b).Decompose(op) }

// DistSqToShape is the exact squared distance from p to the point set of s
// (0 when p is in s). ok=false when s is empty.
func DistSqToShape(s *Shape, p Pt) (*big.Rat, bool) {
	if s.IsEmpty() {
		return nil, false
	}
	if s.In(p) {
		return new(big.Rat), true
	}
	var best *big.Rat
	up := func(d *big.Rat) {
		if best == nil || d.Cmp(best) < 0 {
			best = d
		}
	}
	// float prefilter: only evaluate exactly the candidates whose float
	// distance is within a safe factor of the best float distance
	type cand struct {
		a, b Pt
		f    float64
	}
	var cs []cand
	fbest := math.Inf(1)
	addSeg := func(a, b Pt) {
		f := fDistPtSeg(p, a, b)
		cs = append(cs, cand{a, b, f})
		if f < fbest {
			fbest = f
		}
	}
	for _, poly := range s.Polys {
		for _, r := range poly {
			for i := 0; i+1 < len(r); i++ {
				addSeg(r[i], r[i+1])
			}
		}
	}
	for _, l := range s.Lines {
		for i := 0; i+1 < len(l); i++ {
			addSeg(l[i], l[i+1])
		}
		if len(l) == 1 {
			addSeg(l[0], l[0])
		}
	}
	for _, q := range s.Pts {
		addSeg(q, q)
	}
	m := math.Abs(p.FX) + math.Abs(p.FY) + s.MaxAbs()
	thr := fbest*(1+1e-9) + 1e-9*m
	for _, c := range cs {
		if c.f <= thr {
			up(DistSqPtSeg(p, c.a, c.b))
		}
	}
	return best, true
}

func fDistPtSeg(p, a, b Pt) float64 {
	dx, dy := b.FX-a.FX, b.FY-a.FY
	l2 := dx*dx + dy*dy
	if l2 == 0 {
		return math.Hypot(p.FX-a.FX, p.FY-a.FY)
	}
	t := ((p.FX-a.FX)*dx + (p.FY-a.FY)*dy) / l2
	if t < 0 {
		t = 0
	} else if t > 1 {
		t = 1
	}
	return math.Hypot(p.FX-(a.FX+t*dx), p.FY-(a.FY+t*dy))
}

// Distance is the exact minimum distance between two shapes (0 if they
// intersect); ok=false if either is empty.
func Distance(a, b *Shape) (float64, bool) {
	if a.IsEmpty() || b.IsEmpty() {
		return 0, false
	}
	if Intersects(a, b) {
		return 0, true
	}
	// disjoint: the minimum is attained between a vertex of one and a
	// segment/point of the other
	var best *big.Rat
	up := func(d *big.Rat, ok bool) {
		if ok && (best == nil || d.Cmp(best) < 0) {
			best = d
		}
	}
	each := func(s *Shape, f func(Pt)) {
		for _, poly := range s.Polys {
			for _, r := range poly {
				for _, p := range r {
					f(p)
				}
			}
		}
		for _, l := range s.Lines {
			for _, p := range l {
				f(p)
			}
		}
		for _, p := range s.Pts {
			f(p)
		}
	}
	each(a, func(p Pt) { up(DistSqToShape(b, p)) })
	each(b, func(p Pt) { up(DistSqToShape(a, p)) })
	return Sqrt(best), true
}

// Clearance returns (in float64, from the exact coordinates) the smallest
// distance between two distinct vertices or between a vertex and a
// non-incident elementary edge of the arrangement. +Inf if undefined.
func (a *Arr) Clearance() float64 {
	best := math.Inf(1)
	for i := range a.V {
		for j := i + 1; j < len(a.V); j++ {
			d := math.Hypot(a.V[i].FX-a.V[j].FX, a.V[i].FY-a.V[j].FY)
			if d < best {
				best = d
			}
		}
	}
	for vi, v := range a.V {
		for _, e := range a.E {
			if e.U == vi || e.V == vi {
				continue
			}
			d := fDistPtSeg(v, a.V[e.U], a.V[e.V])
			if d < best {
				best = d
			}
		}
	}
	return best
}

// SepOfSample: distance (float64) from a cell sample to the nearest
// arrangement element that does not contain it.
func (a *Arr) SepOfSample(c Cell, ci int) float64 {
	best := math.Inf(1)
	p := c.Sample
	for _, v := range a.V {
		if c.Dim == 0 && v.FX == p.FX && v.FY == p.FY {
			continue
		}
		d := math.Hypot(v.FX-p.FX, v.FY-p.FY)
		if d < best {
			best = d
		}
	}
	for _, e := range a.E {
		u, w := a.V[e.U], a.V[e.V]
		if c.Dim == 0 && ((u.FX == p.FX && u.FY == p.FY) || (w.FX == p.FX && w.FY == p.FY)) {
			continue
		}
		d := fDistPtSeg(p, u, w)
		if c.Dim == 1 && d < 1e-12*(math.Abs(p.FX)+math.Abs(p.FY)+1) {
			continue // the edge the sample lies on
		}
		if d < best {
			best = d
		}
	}
	return best
}

// RingArea2 is twice the signed shoelace area of a closed ring.
func RingArea2(r []Pt) *big.Rat {
	s := new(big.Rat)
	for i := 0; i+1 < len(r); i++ {
		s.Add(s, sub(mul(r[i].X, r[i+1].Y), mul(r[i+1].X, r[i].Y)))
	}
	return s
}

// Area is the exact area of the areal part (shell minus holes per polygon,
// polygons summed; meaningful for valid polygons / multipolygons).
func (s *Shape) Area() *big.Rat {
	tot := new(big.Rat)
	for _, poly := range s.Polys {
		for i, r := range poly {
			a := RingArea2(r)
			a.Abs(a)
			if i == 0 {
				tot.Add(tot, a)
			} else {
				tot.Sub(tot, a)
			}
		}
	}
	return tot.Mul(tot, ratHalf)
}

// Length is the total length of the lineal part (200-bit square roots).
func (s *Shape) Length() float64 {
	l := new(big.Float).SetPrec(200)
	for _, ln := range s.Lines {
		for i := 0; i+1 < len(ln); i++ {
			l.Add(l, SqrtBig(DistSq(ln[i], ln[i+1])))
		}
	}
	f, _ := l.Float64()
	return f
}

// Perimeter is the total ring length of the areal part.
func (s *Shape) Perimeter() float64 {
	l := new(big.Float).SetPrec(200)
	for _, p := range s.Polys {
		for _, r := range p {
			for i := 0; i+1 < len(r); i++ {
				l.Add(l, SqrtBig(DistSq(r[i], r[i+1])))
			}
		}
	}
	f, _ := l.Float64()
	return f
}
