package exact

import (
	"math"

	"github.com/peterstace/simplefeatures/geom"
)

const (
	LocI = 0
	LocB = 1
	LocE = 2
)

// Shape is the oracle's neutral description of a geometry: polygons as lists
// of closed rings (first = shell), lines, isolated points. It is read from the
// library only through public accessors.
type Shape struct {
	Polys  [][][]Pt
	Lines  [][]Pt
	Pts    []Pt
	bnd    map[[2]float64][]bndEntry // endpoint parity (mod-2 rule)
	Finite bool
}

type bndEntry struct {
	p Pt
	n int
}

func seqPts(s geom.Sequence) ([]Pt, bool) {
	out := make([]Pt, s.Length())
	fin := true
	for i := range out {
		xy := s.GetXY(i)
		if math.IsNaN(xy.X) || math.IsInf(xy.X, 0) || math.IsNaN(xy.Y) || math.IsInf(xy.Y, 0) {
			fin = false
			continue
		}
		out[i] = PF(xy.X, xy.Y)
	}
	return out, fin
}

// FromGeom flattens g (any type, nested collections included).
func FromGeom(g geom.Geometry) *Shape {
	s := &Shape{bnd: map[[2]float64][]bndEntry{}, Finite: true}
	s.add(g)
	return s
}

func (s *Shape) addBnd(p Pt) {
	k := [2]float64{p.FX, p.FY}
	l := s.bnd[k]
	for i := range l {
		if l[i].p.Eq(p) {
			l[i].n++
			return
		}
	}
	s.bnd[k] = append(l, bndEntry{p, 1})
}

func (s *Shape) bndCount(p Pt) int {
	for _, e := range s.bnd[[2]float64{p.FX, p.FY}] {
		if e.p.Eq(p) {
			return e.n
		}
	}
	return 0
}

func (s *Shape) add(g geom.Geometry) {
	switch g.Type() {
	case geom.TypePoint:
		if xy, ok := g.MustAsPoint().XY(); ok {
			if math.IsNaN(xy.X) || math.IsInf(xy.X, 0) || math.IsNaN(xy.Y) || math.IsInf(xy.Y, 0) {
				s.Finite = false
				return
			}
			s.Pts = append(s.Pts, PF(xy.X, xy.Y))
		}
	case geom.TypeMultiPoint:
		mp := g.MustAsMultiPoint()
		for i := 0; i < mp.NumPoints(); i++ {
			s.add(mp.PointN(i).AsGeometry())
		}
	case geom.TypeLineString:
		ls := g.MustAsLineString()
		if ls.IsEmpty() {
			return
		}
		ps, fin := seqPts(ls.Coordinates())
		if !fin {
			s.Finite = false
			return
		}
		s.AddLine(ps)
	case geom.TypeMultiLineString:
		ml := g.MustAsMultiLineString()
		for i := 0; i < ml.NumLineStrings(); i++ {
			s.add(ml.LineStringN(i).AsGeometry())
		}
	case geom.TypePolygon:
		p := g.MustAsPolygon()
		if p.IsEmpty() {
			return
		}
		var rings [][]Pt
		for _, r := range p.DumpRings() {
			ps, fin := seqPts(r.Coordinates())
			if !fin {
				s.Finite = false
				return
			}
			rings = append(rings, ps)
		}
		s.Polys = append(s.Polys, rings)
	case geom.TypeMultiPolygon:
		mp := g.MustAsMultiPolygon()
		for i := 0; i < mp.NumPolygons(); i++ {
			s.add(mp.PolygonN(i).AsGeometry())
		}
	case geom.TypeGeometryCollection:
		gc := g.MustAsGeometryCollection()
		for i := 0; i < gc.NumGeometries(); i++ {
			s.add(gc.GeometryN(i))
		}
	}
}

// AddLine adds a curve; non-closed curves contribute their endpoints to the
// mod-2 boundary count.
func (s *Shape) AddLine(ps []Pt) {
	if len(ps) == 0 {
		return
	}
	s.Lines = append(s.Lines, ps)
	if !ps[0].Eq(ps[len(ps)-1]) {
		s.addBnd(ps[0])
		s.addBnd(ps[len(ps)-1])
	}
}

func NewShape() *Shape { return &Shape{bnd: map[[2]float64][]bndEntry{}, Finite: true} }

func (s *Shape) IsEmpty() bool { return len(s.Polys) == 0 && len(s.Lines) == 0 && len(s.Pts) == 0 }

// Dim is the dimension of the highest-dimensional non-empty part (-1 if empty).
func (s *Shape) Dim() int {
	switch {
	case len(s.Polys) > 0:
		return 2
	case len(s.Lines) > 0:
		return 1
	case len(s.Pts) > 0:
		return 0
	}
	return -1
}

// RingLoc: -1 strictly inside, 0 on the ring, +1 outside (exact half-open
// crossing rule).
func RingLoc(ring []Pt, p Pt) int {
	cnt := 0
	for i := 0; i+1 < len(ring); i++ {
		a, b := ring[i], ring[i+1]
		// quick reject: p.y outside the segment's closed y-range (with margin) and not possibly on it
		lo, hi := a, b
		if CmpY(lo, hi) > 0 {
			lo, hi = hi, lo
		}
		cl, ch := CmpY(lo, p), CmpY(p, hi)
		if cl > 0 || ch > 0 {
			continue // strictly below lo or strictly above hi
		}
		if a.Eq(b) {
			if a.Eq(p) {
				return 0
			}
			continue
		}
		if OnSeg(a, b, p) {
			return 0
		}
		// half-open: lo.Y <= p.Y < hi.Y
		if ch == 0 { // p.Y == hi.Y
			continue
		}
		if CmpY(lo, hi) == 0 {
			continue // horizontal
		}
		if Orient(lo, hi, p) < 0 {
			cnt++
		}
	}
	if cnt%2 == 1 {
		return -1
	}
	return 1
}

// PolyLoc locates p relative to one polygon (rings[0] shell).
func PolyLoc(rings [][]Pt, p Pt) int {
	l := RingLoc(rings[0], p)
	if l == 0 {
		return LocB
	}
	if l > 0 {
		return LocE
	}
	for _, h := range rings[1:] {
		hl := RingLoc(h, p)
		if hl == 0 {
			return LocB
		}
		if hl < 0 {
			return LocE
		}
	}
	return LocI
}

// Locate is the definitional interior/boundary/exterior location of p. For a
// collection with overlapping members only "exterior or not" is meaningful.
func (s *Shape) Locate(p Pt) int {
	res := LocE
	for _, poly := range s.Polys {
		switch PolyLoc(poly, p) {
		case LocI:
			return LocI
		case LocB:
			res = LocB
		}
	}
	if res == LocB {
		return LocB
	}
	onLine := false
	for _, ln := range s.Lines {
		for i := 0; i+1 < len(ln); i++ {
			if ln[i].Eq(ln[i+1]) {
				if ln[i].Eq(p) {
					onLine = true
				}
				continue
			}
			if OnSeg(ln[i], ln[i+1], p) {
				onLine = true
				break
			}
		}
		if len(ln) == 1 && ln[0].Eq(p) {
			onLine = true
		}
		if onLine {
			break
		}
	}
	if onLine {
		if s.bndCount(p)%2 == 1 {
			return LocB
		}
		return LocI
	}
	for _, q := range s.Pts {
		if q.Eq(p) {
			return LocI
		}
	}
	return LocE
}

func (s *Shape) In(p Pt) bool { return s.Locate(p) != LocE }

// Seg is an input segment of the arrangement, tagged by its carrier.
type Seg struct {
	A, B Pt
	Tag  int
}

// Segs lists all non-degenerate segments; tag = base + index of the ring/line
// (polygon rings first, in order, then lines).
func (s *Shape) Segs(base int) []Seg {
	var out []Seg
	tag := base
	addSeq := func(ps []Pt) {
		for i := 0; i+1 < len(ps); i++ {
			if !ps[i].Eq(ps[i+1]) {
				out = append(out, Seg{ps[i], ps[i+1], tag})
			}
		}
		tag++
	}
	for _, poly := range s.Polys {
		for _, r := range poly {
			addSeq(r)
		}
	}
	for _, l := range s.Lines {
		addSeq(l)
	}
	return out
}

// IsoPts lists the isolated points (Point members and degenerate lines).
func (s *Shape) IsoPts() []Pt {
	out := append([]Pt(nil), s.Pts...)
	for _, l := range s.Lines {
		deg := true
		for i := 0; i+1 < len(l); i++ {
			if !l[i].Eq(l[i+1]) {
				deg = false
			}
		}
		if deg && len(l) > 0 {
			out = append(out, l[0])
		}
	}
	return out
}

// MaxAbs returns the largest |ordinate| (at least 1).
func (s *Shape) MaxAbs() float64 {
	m := 1.0
	up := func(p Pt) {
		if a := math.Abs(p.FX); a > m {
			m = a
		}
		if a := math.Abs(p.FY); a > m {
			m = a
		}
	}
	for _, poly := range s.Polys {
		for _, r := range poly {
			for _, p := range r {
				up(p)
			}
		}
	}
	for _, l := range s.Lines {
		for _, p := range l {
			up(p)
		}
	}
	for _, p := range s.Pts {
		up(p)
	}
	return m
}
