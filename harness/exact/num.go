// Package exact is the independent exact-arithmetic oracle: rational points,
// filtered exact predicates, definitional locate, a vertical-slab arrangement
// with face adjacency, DE-9IM, Boolean decomposition, distances and validity.
// It shares no code with the library; float64 inputs are converted exactly.
package exact

import (
	"math"
	"math/big"
)

// Pt is an exact rational point with cached nearest-double approximations used
// only to filter predicates (every decision falls back to exact arithmetic
// when the floating-point evaluation is not certain).
type Pt struct {
	X, Y   *big.Rat
	FX, FY float64
}

func R(f float64) *big.Rat { return new(big.Rat).SetFloat64(f) }

func PF(x, y float64) Pt { return Pt{R(x), R(y), x, y} }

func PR(x, y *big.Rat) Pt {
	fx, _ := x.Float64()
	fy, _ := y.Float64()
	return Pt{x, y, fx, fy}
}

func sub(a, b *big.Rat) *big.Rat { return new(big.Rat).Sub(a, b) }
func mul(a, b *big.Rat) *big.Rat { return new(big.Rat).Mul(a, b) }
func add(a, b *big.Rat) *big.Rat { return new(big.Rat).Add(a, b) }
func quo(a, b *big.Rat) *big.Rat { return new(big.Rat).Quo(a, b) }

var ratHalf = big.NewRat(1, 2)

func half(a *big.Rat) *big.Rat { return new(big.Rat).Mul(a, ratHalf) }

func Mid(a, b Pt) Pt { return PR(half(add(a.X, b.X)), half(add(a.Y, b.Y))) }

// cmpF compares two rationals using their float approximations when the gap is
// certain, exactly otherwise.
func cmpF(a *big.Rat, fa float64, b *big.Rat, fb float64) int {
	m := math.Max(math.Abs(fa), math.Abs(fb))
	if m > 1e-280 && m < 1e280 {
		d := fa - fb
		if d > 1e-14*m {
			return 1
		}
		if d < -1e-14*m {
			return -1
		}
	}
	return a.Cmp(b)
}

func CmpX(a, b Pt) int { return cmpF(a.X, a.FX, b.X, b.FX) }
func CmpY(a, b Pt) int { return cmpF(a.Y, a.FY, b.Y, b.FY) }

func (p Pt) Eq(q Pt) bool {
	if p.FX != q.FX || p.FY != q.FY {
		return false // equal rationals have equal nearest doubles
	}
	return p.X.Cmp(q.X) == 0 && p.Y.Cmp(q.Y) == 0
}

// Orient is the sign of the cross product (b-a)x(c-a): +1 left turn.
func Orient(a, b, c Pt) int {
	m := math.Max(math.Max(math.Max(math.Abs(a.FX), math.Abs(a.FY)), math.Max(math.Abs(b.FX), math.Abs(b.FY))), math.Max(math.Abs(c.FX), math.Abs(c.FY)))
	if m > 1e-140 && m < 1e140 {
		det := (b.FX-a.FX)*(c.FY-a.FY) - (b.FY-a.FY)*(c.FX-a.FX)
		bound := 1e-11 * m * m
		if det > bound {
			return 1
		}
		if det < -bound {
			return -1
		}
	}
	l := mul(sub(b.X, a.X), sub(c.Y, a.Y))
	r := mul(sub(b.Y, a.Y), sub(c.X, a.X))
	return l.Cmp(r)
}

// OrientExact never uses the float filter (used to cross-check the filter).
func OrientExact(a, b, c Pt) int {
	l := mul(sub(b.X, a.X), sub(c.Y, a.Y))
	r := mul(sub(b.Y, a.Y), sub(c.X, a.X))
	return l.Cmp(r)
}

func betweenX(a, b, p Pt) bool {
	if CmpX(a, b) > 0 {
		a, b = b, a
	}
	return CmpX(a, p) <= 0 && CmpX(p, b) <= 0
}
func betweenY(a, b, p Pt) bool {
	if CmpY(a, b) > 0 {
		a, b = b, a
	}
	return CmpY(a, p) <= 0 && CmpY(p, b) <= 0
}

// OnSeg reports whether p lies on the closed segment ab.
func OnSeg(a, b, p Pt) bool {
	// cheap rejection by bounding box on floats with a safe margin
	m := 1e-12 * (math.Abs(p.FX) + math.Abs(p.FY) + math.Abs(a.FX) + math.Abs(a.FY) + math.Abs(b.FX) + math.Abs(b.FY) + 1e-300)
	if p.FX < math.Min(a.FX, b.FX)-m || p.FX > math.Max(a.FX, b.FX)+m || p.FY < math.Min(a.FY, b.FY)-m || p.FY > math.Max(a.FY, b.FY)+m {
		return false
	}
	return Orient(a, b, p) == 0 && betweenX(a, b, p) && betweenY(a, b, p)
}

// SegInter classifies the intersection of closed segments ab and cd.
// kind: 0 none, 1 single point (returned), 2 collinear overlap of positive length.
func SegInter(a, b, c, d Pt) (kind int, p Pt) {
	o1, o2, o3, o4 := Orient(a, b, c), Orient(a, b, d), Orient(c, d, a), Orient(c, d, b)
	if o1 == 0 && o2 == 0 {
		// collinear: compare projections on the dominant axis
		lo1, hi1, lo2, hi2 := a, b, c, d
		cmp := CmpX
		if CmpX(a, b) == 0 {
			cmp = CmpY
		}
		if cmp(lo1, hi1) > 0 {
			lo1, hi1 = hi1, lo1
		}
		if cmp(lo2, hi2) > 0 {
			lo2, hi2 = hi2, lo2
		}
		lo, hi := lo1, hi1
		if cmp(lo2, lo) > 0 {
			lo = lo2
		}
		if cmp(hi2, hi) < 0 {
			hi = hi2
		}
		switch c := cmp(lo, hi); {
		case c > 0:
			return 0, Pt{}
		case c == 0:
			return 1, lo
		default:
			return 2, Pt{}
		}
	}
	if o1*o2 > 0 || o3*o4 > 0 {
		return 0, Pt{}
	}
	// touching at an endpoint: return that endpoint exactly
	switch {
	case o1 == 0:
		return 1, c
	case o2 == 0:
		return 1, d
	case o3 == 0:
		return 1, a
	case o4 == 0:
		return 1, b
	}
	rx, ry := sub(b.X, a.X), sub(b.Y, a.Y)
	sx, sy := sub(d.X, c.X), sub(d.Y, c.Y)
	den := sub(mul(rx, sy), mul(ry, sx))
	num := sub(mul(sub(c.X, a.X), sy), mul(sub(c.Y, a.Y), sx))
	t := quo(num, den)
	return 1, PR(add(a.X, mul(t, rx)), add(a.Y, mul(t, ry)))
}

// DistSqPtSeg is the exact squared distance from p to the closed segment ab.
func DistSqPtSeg(p, a, b Pt) *big.Rat {
	dx, dy := sub(b.X, a.X), sub(b.Y, a.Y)
	l2 := add(mul(dx, dx), mul(dy, dy))
	if l2.Sign() == 0 {
		return DistSq(p, a)
	}
	t := add(mul(sub(p.X, a.X), dx), mul(sub(p.Y, a.Y), dy)) // = t*l2
	if t.Sign() <= 0 {
		return DistSq(p, a)
	}
	if t.Cmp(l2) >= 0 {
		return DistSq(p, b)
	}
	// perpendicular distance^2 = cross^2 / l2
	cr := sub(mul(dx, sub(p.Y, a.Y)), mul(dy, sub(p.X, a.X)))
	return quo(mul(cr, cr), l2)
}

func DistSq(p, q Pt) *big.Rat {
	dx, dy := sub(p.X, q.X), sub(p.Y, q.Y)
	return add(mul(dx, dx), mul(dy, dy))
}

// Sqrt returns the square root of a non-negative rational as a float64,
// computed with 200-bit precision and rounded once.
func Sqrt(r *big.Rat) float64 {
	if r.Sign() <= 0 {
		return 0
	}
	f := new(big.Float).SetPrec(200).SetRat(r)
	f.Sqrt(f)
	v, _ := f.Float64()
	return v
}

// SqrtBig returns the 200-bit square root.
func SqrtBig(r *big.Rat) *big.Float {
	f := new(big.Float).SetPrec(200).SetRat(r)
	if r.Sign() <= 0 {
		return f.SetInt64(0)
	}
	return f.Sqrt(f)
}

func F(r *big.Rat) float64 { f, _ := r.Float64(); return f }
