package exact

import (
	"fmt"
	"math"

	"github.com/peterstace/simplefeatures/geom"
)

// Verdict of the definitional validity oracle.
type Verdict struct {
	OK   bool
	Rule string // first violated rule
	// Inconsistent is set when two independent criteria of the oracle
	// disagree; the caller must treat the case as inconclusive.
	Inconsistent string
}

func bad(rule string, args ...any) Verdict { return Verdict{Rule: fmt.Sprintf(rule, args...)} }

var good = Verdict{OK: true}

func dedupe(ps []Pt) []Pt {
	var out []Pt
	for _, p := range ps {
		if len(out) == 0 || !out[len(out)-1].Eq(p) {
			out = append(out, p)
		}
	}
	return out
}

func finiteSeq(s geom.Sequence) bool {
	for i := 0; i < s.Length(); i++ {
		xy := s.GetXY(i)
		if math.IsNaN(xy.X) || math.IsInf(xy.X, 0) || math.IsNaN(xy.Y) || math.IsInf(xy.Y, 0) {
			return false
		}
	}
	return true
}

// SimpleCurve: the curve does not pass through the same point twice, except
// that the first and last points of a closed curve coincide.
func SimpleCurve(raw []Pt) bool {
	ps := dedupe(raw)
	m := len(ps) - 1 // segments
	if m < 1 {
		return true
	}
	closed := ps[0].Eq(ps[m])
	for i := 0; i < m; i++ {
		for j := i + 1; j < m; j++ {
			k, p := SegInter(ps[i], ps[i+1], ps[j], ps[j+1])
			if k == 0 {
				continue
			}
			if k == 2 {
				return false
			}
			if j == i+1 {
				if !p.Eq(ps[j]) {
					return false
				}
				// with m==2 and closed the two segments also share ps[0]: overlap (k==2) already caught
				continue
			}
			if closed && i == 0 && j == m-1 {
				if !p.Eq(ps[0]) {
					return false
				}
				continue
			}
			return false
		}
	}
	return true
}

// ringOK: closed and simple with at least three segments.
func ringOK(raw []Pt) Verdict {
	if len(raw) == 0 {
		return bad("ring empty")
	}
	if !raw[0].Eq(raw[len(raw)-1]) {
		return bad("ring not closed")
	}
	ps := dedupe(raw)
	if len(ps) < 4 {
		return bad("ring has fewer than three distinct segments")
	}
	if !SimpleCurve(ps) {
		return bad("ring not simple")
	}
	return good
}

// ringInter lists distinct common points of two rings and whether they share
// a segment portion of positive length.
func ringInter(a, b []Pt) (pts []Pt, overlap bool) {
	for i := 0; i+1 < len(a); i++ {
		if a[i].Eq(a[i+1]) {
			continue
		}
		for j := 0; j+1 < len(b); j++ {
			if b[j].Eq(b[j+1]) {
				continue
			}
			k, p := SegInter(a[i], a[i+1], b[j], b[j+1])
			switch k {
			case 2:
				return nil, true
			case 1:
				dup := false
				for _, q := range pts {
					if q.Eq(p) {
						dup = true
					}
				}
				if !dup {
					pts = append(pts, p)
				}
			}
		}
	}
	return pts, false
}

// ValidPolygon checks the OGC polygon rules on rings (rings[0] = shell).
func ValidPolygon(rings [][]Pt) Verdict {
	if len(rings) == 0 {
		return good
	}
	for i, r := range rings {
		if v := ringOK(r); !v.OK {
			return bad("ring %d: %s", i, v.Rule)
		}
	}
	n := len(rings)
	type touch struct {
		i, j int
		p    Pt
	}
	var touches []touch
	for i := 0; i < n; i++ {
		for j := i + 1; j < n; j++ {
			pts, ov := ringInter(rings[i], rings[j])
			if ov {
				return bad("rings %d and %d share a segment", i, j)
			}
			if len(pts) > 1 {
				return bad("rings %d and %d meet in %d points", i, j, len(pts))
			}
			if len(pts) == 1 {
				touches = append(touches, touch{i, j, pts[0]})
			}
		}
	}
	// holes inside the shell
	for h := 1; h < n; h++ {
		strictly := false
		for _, p := range rings[h] {
			switch RingLoc(rings[0], p) {
			case 1:
				return bad("hole %d has a vertex outside the shell", h)
			case -1:
				strictly = true
			}
		}
		if !strictly {
			return bad("hole %d not inside the shell", h)
		}
	}
	// holes not nested
	for i := 1; i < n; i++ {
		for j := 1; j < n; j++ {
			if i == j {
				continue
			}
			for _, p := range rings[i] {
				if RingLoc(rings[j], p) == -1 {
					return bad("hole %d lies inside hole %d", i, j)
				}
			}
		}
	}
	// interior connectedness, criterion 1: the ring/touch-point bipartite graph is a forest
	forest := true
	{
		// nodes: rings 0..n-1, then distinct touch points
		var tp []Pt
		tpIndex := func(p Pt) int {
			for i, q := range tp {
				if q.Eq(p) {
					return i
				}
			}
			tp = append(tp, p)
			return len(tp) - 1
		}
		type e struct{ a, b int }
		var edges []e
		seen := map[e]bool{}
		for _, t := range touches {
			pi := n + tpIndex(t.p)
			for _, r := range []int{t.i, t.j} {
				ed := e{r, pi}
				if !seen[ed] {
					seen[ed] = true
					edges = append(edges, ed)
				}
			}
		}
		parent := make([]int, n+len(tp))
		for i := range parent {
			parent[i] = i
		}
		var find func(int) int
		find = func(x int) int {
			for parent[x] != x {
				parent[x] = parent[parent[x]]
				x = parent[x]
			}
			return x
		}
		for _, ed := range edges {
			ra, rb := find(ed.a), find(ed.b)
			if ra == rb {
				forest = false
				break
			}
			parent[ra] = rb
		}
	}
	// criterion 2: exactly one arrangement face is inside the shell and outside every hole
	var segs []Seg
	for ri, r := range rings {
		for i := 0; i+1 < len(r); i++ {
			if !r[i].Eq(r[i+1]) {
				segs = append(segs, Seg{r[i], r[i+1], ri})
			}
		}
	}
	arr := BuildArr(segs, nil)
	if arr.Err != "" {
		return Verdict{Inconsistent: "arrangement: " + arr.Err}
	}
	fs, _ := arr.FaceSamples()
	inside := 0
	for f := 1; f < arr.NFaces; f++ {
		if PolyLoc(rings, fs[f]) == LocI {
			inside++
		}
	}
	connected := inside == 1
	if connected != forest {
		return Verdict{Inconsistent: fmt.Sprintf("connectedness criteria disagree: faces=%d forest=%v", inside, forest)}
	}
	if !connected {
		return bad("interior not connected (%d components)", inside)
	}
	return good
}

// ValidMultiPolygon checks member validity and the pairwise member rules.
func ValidMultiPolygon(polys [][][]Pt) Verdict {
	var nonEmpty [][][]Pt
	for i, p := range polys {
		if len(p) == 0 {
			continue
		}
		if v := ValidPolygon(p); !v.OK {
			if v.Inconsistent != "" {
				return v
			}
			return bad("member %d: %s", i, v.Rule)
		}
		nonEmpty = append(nonEmpty, p)
	}
	if len(nonEmpty) < 2 {
		return good
	}
	var segs []Seg
	for mi, p := range nonEmpty {
		for _, r := range p {
			for i := 0; i+1 < len(r); i++ {
				if !r[i].Eq(r[i+1]) {
					segs = append(segs, Seg{r[i], r[i+1], mi})
				}
			}
		}
	}
	arr := BuildArr(segs, nil)
	if arr.Err != "" {
		return Verdict{Inconsistent: "arrangement: " + arr.Err}
	}
	for _, e := range arr.E {
		for _, t := range e.Tags[1:] {
			if t != e.Tags[0] {
				return bad("members %d and %d share a boundary segment", e.Tags[0], t)
			}
		}
	}
	fs, _ := arr.FaceSamples()
	for f := 1; f < arr.NFaces; f++ {
		cnt := 0
		first := -1
		for mi, p := range nonEmpty {
			if PolyLoc(p, fs[f]) == LocI {
				cnt++
				if cnt == 1 {
					first = mi
				} else {
					return bad("interiors of members %d and %d intersect", first, mi)
				}
			}
		}
	}
	// boundaries crossing without creating a common face is impossible; a
	// member edge passing through another member's interior shows up as a face.
	return good
}

func polyRings(p geom.Polygon) ([][]Pt, bool) {
	var rings [][]Pt
	for _, r := range p.DumpRings() {
		if !finiteSeq(r.Coordinates()) {
			return nil, false
		}
		ps, _ := seqPts(r.Coordinates())
		rings = append(rings, ps)
	}
	return rings, true
}

// ValidGeom is the definitional validity verdict for any geometry.
func ValidGeom(g geom.Geometry) Verdict {
	switch g.Type() {
	case geom.TypePoint:
		if xy, ok := g.MustAsPoint().XY(); ok {
			if math.IsNaN(xy.X) || math.IsInf(xy.X, 0) || math.IsNaN(xy.Y) || math.IsInf(xy.Y, 0) {
				return bad("non-finite XY")
			}
		}
		return good
	case geom.TypeMultiPoint:
		mp := g.MustAsMultiPoint()
		for i := 0; i < mp.NumPoints(); i++ {
			if v := ValidGeom(mp.PointN(i).AsGeometry()); !v.OK {
				return v
			}
		}
		return good
	case geom.TypeLineString:
		ls := g.MustAsLineString()
		if ls.IsEmpty() {
			return good
		}
		if !finiteSeq(ls.Coordinates()) {
			return bad("non-finite XY")
		}
		ps, _ := seqPts(ls.Coordinates())
		if len(dedupe(ps)) < 2 {
			return bad("fewer than two distinct points")
		}
		return good
	case geom.TypeMultiLineString:
		ml := g.MustAsMultiLineString()
		for i := 0; i < ml.NumLineStrings(); i++ {
			if v := ValidGeom(ml.LineStringN(i).AsGeometry()); !v.OK {
				return v
			}
		}
		return good
	case geom.TypePolygon:
		p := g.MustAsPolygon()
		if p.IsEmpty() {
			return good
		}
		rings, fin := polyRings(p)
		if !fin {
			return bad("non-finite XY")
		}
		return ValidPolygon(rings)
	case geom.TypeMultiPolygon:
		mp := g.MustAsMultiPolygon()
		var polys [][][]Pt
		for i := 0; i < mp.NumPolygons(); i++ {
			p := mp.PolygonN(i)
			if p.IsEmpty() {
				polys = append(polys, nil)
				continue
			}
			rings, fin := polyRings(p)
			if !fin {
				return bad("non-finite XY")
			}
			polys = append(polys, rings)
		}
		return ValidMultiPolygon(polys)
	case geom.TypeGeometryCollection:
		gc := g.MustAsGeometryCollection()
		for i := 0; i < gc.NumGeometries(); i++ {
			if v := ValidGeom(gc.GeometryN(i)); !v.OK {
				return v
			}
		}
		return good
	}
	return good
}

// SimpleGeomLine implements the documented IsSimple for LineString and
// MultiLineString shapes: each member simple, and two members meet only at
// points that are boundary points (endpoints of non-closed members) of both.
func SimpleMultiLine(lines [][]Pt) bool {
	var ls [][]Pt
	for _, l := range lines {
		d := dedupe(l)
		if len(d) >= 2 {
			ls = append(ls, d)
		}
	}
	for _, l := range ls {
		if !SimpleCurve(l) {
			return false
		}
	}
	isBnd := func(l []Pt, p Pt) bool {
		if l[0].Eq(l[len(l)-1]) {
			return false
		}
		return p.Eq(l[0]) || p.Eq(l[len(l)-1])
	}
	for i := 0; i < len(ls); i++ {
		for j := i + 1; j < len(ls); j++ {
			a, b := ls[i], ls[j]
			for s := 0; s+1 < len(a); s++ {
				for t := 0; t+1 < len(b); t++ {
					k, p := SegInter(a[s], a[s+1], b[t], b[t+1])
					if k == 2 {
						return false
					}
					if k == 1 && !(isBnd(a, p) && isBnd(b, p)) {
						return false
					}
				}
			}
		}
	}
	return true
}
