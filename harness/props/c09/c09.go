// Package c09 monitors Intersects and Distance against the exact oracle and
// against Relate / Intersection / envelope distance.
package c09

import (
	"fmt"
	"math"

	"github.com/peterstace/simplefeatures/geom"

	"verif/exact"
	"verif/gen"
	"verif/props/shared"
	"verif/run"
)

func init() {
	run.Register(&run.Property{
		ID:    "C09",
		Title: "Intersects and Distance agree with exact geometry and with Relate",
		Rule: "[added in rounds 9-11: collinear: two lineal operands on one line in 8 directions (touching, overlapping, nested, separated); payload-blind copies] cases = operand pairs over all 8x8 operand kinds (seven types incl. collections with empty members, typed empties) from D-small/D-large/D-gp, half of them with the second operand translated away by a lattice vector so that Distance takes its search path, plus triples for the triangle inequality; " +
			"judged against exact intersects (arrangement) and exact minimum distance (rational squared distances, 200-bit square root). non-trivial = envelopes intersect or the indexed operand has >= 8 segments; distinct by operand WKB",
		Assumptions: []string{"distance tolerance 1e-13*max(1,M) (about 450 ulps of the largest ordinate; the statement says a few ulps, the largest error observed on the unchanged tree is below 2 ulps), envelope bound slack 1e-12*M, triangle slack 3e-9*M — fixed in DESIGN.md before the check existed",
			"near-degenerate pairs (clearance < 1e-9*M lattice / 1e-6*M general position) are excluded and counted"},
		MinNontrivial:    300,
		RequiredMonitors: []string{"intersects-exact", "intersects-sym", "disjoint", "intersection-empty", "dist-defined", "dist-zero", "dist-exact", "dist-sym", "dist-env", "dist-triangle", "payload-blind"},
		Run:              runAll,
	})
}

func operand(g *gen.G, kind int) geom.Geometry {
	var x geom.Geometry
	switch {
	case kind < 7:
		x = g.Typed(gen.AllTypes[kind], 1)
		if g.R.Chance(1, 4) {
			x = gen.WithEmpties(g.R, x, 1)
		}
	default:
		x = gen.EmptyOf(gen.AllTypes[g.R.Intn(7)], geom.DimXY)
	}
	return x
}

func translate(g geom.Geometry, dx, dy float64) geom.Geometry {
	return g.TransformXY(func(p geom.XY) geom.XY { return geom.XY{X: p.X + dx, Y: p.Y + dy} })
}

func nseg(s *exact.Shape) int { return len(s.Segs(0)) }

// diameter upper bound: diagonal of the envelope
func diam(g geom.Geometry) float64 {
	e := g.Envelope()
	a, b, ok := e.MinMaxXYs()
	if !ok {
		return 0
	}
	return math.Hypot(b.X-a.X, b.Y-a.Y)
}

// Pair judges one pair; returns the library distance and whether judged.
func Pair(k *run.K, domain string, a, b geom.Geometry) (float64, bool, bool) {
	sa, sb := exact.FromGeom(a), exact.FromGeom(b)
	arr := exact.Joint(sa, sb)
	if arr.Err != "" {
		k.Skip("oracle-inconsistent")
		return 0, false, false
	}
	M := shared.MaxAbs2(sa, sb)
	if cl := arr.Clearance(); cl < shared.ClearanceBound(domain, M) {
		k.Skip("intersects-exact")
		k.Count("excluded_by_clearance", 1)
		return 0, false, false
	}
	want := exact.Intersects(sa, sb)
	k.Distinct("type_pairs", shared.TypeName(a)+"/"+shared.TypeName(b))
	if a.Envelope().Intersects(b.Envelope()) || nseg(sa) >= 8 || nseg(sb) >= 8 {
		k.Nontrivial(string(a.AsBinary()) + "|" + string(b.AsBinary()))
	}
	var got, gotR, dj bool
	var djErr error
	var inter geom.Geometry
	var interErr error
	var d1, d2 float64
	var ok1, ok2 bool
	if k.Lib("nopanic", func() {
		got, gotR = geom.Intersects(a, b), geom.Intersects(b, a)
		dj, djErr = geom.Disjoint(a, b)
		inter, interErr = geom.Intersection(a, b)
		d1, ok1 = geom.Distance(a, b)
		d2, ok2 = geom.Distance(b, a)
	}) {
		return 0, false, false
	}
	k.Obs("intersects", got)
	k.Obs("distance", d1)
	k.Check("intersects-exact", got == want, "Intersects(a,b)=%v, exact=%v", got, want)
	k.Check("intersects-sym", got == gotR, "Intersects(a,b)=%v but Intersects(b,a)=%v", got, gotR)
	k.Check("disjoint", djErr == nil && dj == !want, "Disjoint(a,b)=%v err=%v, exact intersects=%v", dj, djErr, want)
	if interErr != nil {
		k.Skip("intersection-empty")
	} else {
		k.Check("intersection-empty", inter.IsEmpty() == !want, "Intersection(a,b) empty=%v but exact intersects=%v (%s)", inter.IsEmpty(), want, inter.AsText())
	}
	// both answers are functions of the point sets in the plane: independent Z/M values at every control point
	// (different at coinciding XY locations) of either operand must not change them
	if k.Index%2 == 0 {
		az, bz := a, b
		if k.Rng.Intn(3) > 0 {
			az = shared.Payload(k.Rng, a, shared.PayloadCT(k.Rng))
		}
		if k.Rng.Intn(3) > 0 || az.CoordinatesType() == geom.DimXY {
			bz = shared.Payload(k.Rng, b, shared.PayloadCT(k.Rng))
		}
		var gz, gzR, okz bool
		var dz float64
		if !k.Lib("nopanic", func() {
			gz, gzR = geom.Intersects(az, bz), geom.Intersects(bz, az)
			dz, okz = geom.Distance(az, bz)
		}) {
			k.Check("payload-blind", gz == want && gzR == want && okz == ok1 && math.Float64bits(dz) == math.Float64bits(d1),
				"with a Z/M payload Intersects=%v/%v (exact %v), Distance=%v,%v (without payload %v,%v)\n a=%s\n b=%s", gz, gzR, want, dz, okz, d1, ok1, az.AsText(), bz.AsText())
		}
	}
	defined := !a.IsEmpty() && !b.IsEmpty()
	k.Check("dist-defined", ok1 == defined && ok2 == defined, "Distance defined=%v/%v, operands empty=%v/%v", ok1, ok2, a.IsEmpty(), b.IsEmpty())
	k.Check("dist-sym", math.Float64bits(d1) == math.Float64bits(d2) && ok1 == ok2, "Distance(a,b)=%v but Distance(b,a)=%v", d1, d2)
	if !defined || !ok1 {
		return 0, false, true
	}
	k.Check("dist-zero", (d1 == 0) == want, "Distance=%v but exact intersects=%v", d1, want)
	wd, _ := exact.Distance(sa, sb)
	k.Obs("exact_distance", wd)
	k.Check("dist-exact", math.Abs(d1-wd) <= 1e-13*M, "Distance(a,b)=%.17g, exact %.17g (diff %.3g)", d1, wd, d1-wd)
	k.Max("max_distance_error_over_M", math.Abs(d1-wd)/M)
	ed, eok := a.Envelope().Distance(b.Envelope())
	k.Check("dist-env", eok && d1 >= ed-1e-12*M, "Distance=%.17g is below the envelope distance %.17g", d1, ed)
	return d1, true, true
}

func runAll(c *run.Ctx) {
	perPair := c.N(150, 3200)
	for ka := 0; ka < 8; ka++ {
		for kb := 0; kb < 8; kb++ {
			n := perPair
			if ka == 7 || kb == 7 {
				n = perPair / 5
			}
			for i := 0; i < n; i++ {
				c.Case(fmt.Sprintf("pair:%d-%d", ka, kb), i, func(k *run.K) {
					domain := shared.PickDomain(k.Rng)
					g := &gen.G{R: k.Rng, Cfg: gen.NewCfg(k.Rng, domain)}
					a, b := operand(g, ka), operand(g, kb)
					if k.Rng.Bool() { // separate the operands by a lattice vector
						s := float64(g.Cfg.Side)
						v := [][2]float64{{s + 1, 0}, {0, -(s + 2)}, {s + 1, s + 3}, {-(2*s + 5), s}, {1, 0}, {0, 2}}[k.Rng.Intn(6)]
						b = translate(b, v[0], v[1])
					} else if domain == gen.DSmall && k.Rng.Chance(1, 3) {
						// a control point of one or both operands exactly at the origin (exact integer
						// translation): the XY that the zero payload of an empty Point carries
						b = shared.AnchorAtOrigin(k.Rng, b)
						if k.Rng.Bool() {
							a = shared.AnchorAtOrigin(k.Rng, a)
						}
						k.Count("origin_anchored", 1)
					}
					k.In("domain", domain)
					k.In("a", shared.WKT(a))
					k.In("b", shared.WKT(b))
					Pair(k, domain, a, b)
				})
			}
		}
	}
	// two lineal operands on ONE line (8 lattice directions incl. the axes): touching end to end at terminal
	// vertices, overlapping, nested, or separated by a gap; as LineStrings (1-3 collinear segments),
	// MultiLineStrings with empty members, or inside collections; both operand orders
	for i := 0; i < c.N(600, 8000); i++ {
		c.Case("collinear", i, func(k *run.K) {
			r := k.Rng
			dir := [][2]float64{{1, 0}, {0, 1}, {1, 1}, {1, -1}, {2, 1}, {1, 2}, {-1, 0}, {0, -1}}[r.Intn(8)]
			ox, oy := float64(r.Range(-5, 5)), float64(r.Range(-5, 5))
			at := func(t int) (float64, float64) { return ox + float64(t)*dir[0], oy + float64(t)*dir[1] }
			mk := func(ts []int) geom.Geometry {
				var fs []float64
				for _, t := range ts {
					x, y := at(t)
					fs = append(fs, x, y)
				}
				ls := geom.NewLineStringXY(fs...)
				switch r.Intn(4) {
				case 1:
					return geom.NewMultiLineString([]geom.LineString{{}, ls}).AsGeometry()
				case 2:
					return geom.NewGeometryCollection([]geom.Geometry{ls.AsGeometry(), geom.Point{}.AsGeometry()}).AsGeometry()
				}
				return ls.AsGeometry()
			}
			chain := func(lo, hi int) []int {
				ts := []int{lo}
				for t := lo + 1; t < hi; t++ {
					if r.Chance(1, 3) {
						ts = append(ts, t)
					}
				}
				ts = append(ts, hi)
				if r.Bool() {
					for a, b := 0, len(ts)-1; a < b; a, b = a+1, b-1 {
						ts[a], ts[b] = ts[b], ts[a]
					}
				}
				return ts
			}
			a0 := r.Range(-4, 0)
			a1 := a0 + r.Range(1, 4)
			var b0, b1 int
			switch r.Intn(4) {
			case 0: // end to end
				b0, b1 = a1, a1+r.Range(1, 4)
			case 1: // gap
				b0 = a1 + r.Range(1, 3)
				b1 = b0 + r.Range(1, 3)
			case 2: // overlap
				b0 = a0 + r.Range(0, a1-a0)
				b1 = a1 + r.Range(0, 3)
				if b1 == b0 {
					b1++
				}
			default: // nested
				b0, b1 = a0-r.Range(0, 2), a1+r.Range(0, 2)
			}
			a, b := mk(chain(a0, a1)), mk(chain(b0, b1))
			if r.Bool() {
				a, b = b, a
			}
			k.In("a", shared.WKT(a))
			k.In("b", shared.WKT(b))
			k.Count("collinear_pairs", 1)
			Pair(k, gen.DSmall, a, b)
		})
	}
	// small extents far from the origin (general position): absolute-coordinate formulas lose their digits here
	for i := 0; i < c.N(1200, 20000); i++ {
		c.Case("offset", i, func(k *run.K) {
			domain := gen.DGP
			cfg := gen.NewCfg(k.Rng, domain)
			cfg.Side, cfg.Scale, cfg.GP = 12, []int{1, 1, 10}[k.Rng.Intn(3)], true
			off := []int{100000, 1350000, 13500000}[k.Rng.Intn(3)]
			cfg.OffX, cfg.OffY = off+k.Rng.Range(-500, 500), -off/3+k.Rng.Range(-500, 500)
			g := &gen.G{R: k.Rng, Cfg: cfg}
			a, b := operand(g, k.Rng.Intn(7)), operand(g, k.Rng.Intn(7))
			if k.Rng.Bool() {
				s := float64(cfg.Side * cfg.Scale)
				b = translate(b, s+1, float64(k.Rng.Range(-3, 3)))
			}
			k.In("domain", domain)
			k.In("a", shared.WKT(a))
			k.In("b", shared.WKT(b))
			Pair(k, domain, a, b)
		})
	}
	for i := 0; i < c.N(2000, 40000); i++ {
		c.Case("grid", i, func(k *run.K) {
			domain := gen.DSmall
			g := &gen.G{R: k.Rng, Cfg: gen.NewCfg(k.Rng, domain)}
			a := g.GridTyped(gen.AllTypes[k.Rng.Intn(7)])
			b := g.GridTyped(gen.AllTypes[k.Rng.Intn(7)])
			if k.Rng.Chance(1, 3) {
				b = translate(b, float64(g.Cfg.Side+k.Rng.Range(0, 2)), float64(k.Rng.Range(-1, 1)))
			}
			k.In("domain", domain)
			k.In("a", shared.WKT(a))
			k.In("b", shared.WKT(b))
			Pair(k, domain, a, b)
		})
	}
	// clustered members: the nearest feature sits in a late-visited node
	for i := 0; i < c.N(600, 15000); i++ {
		c.Case("clustered", i, func(k *run.K) {
			domain := gen.DLarge
			g := &gen.G{R: k.Rng, Cfg: gen.NewCfg(k.Rng, domain)}
			n := k.Rng.Range(6, 14)
			ms := make([]geom.Geometry, n)
			for j := range ms {
				ms[j] = g.Typed(gen.AllTypes[k.Rng.Intn(6)], 0)
			}
			a := geom.NewGeometryCollection(ms).AsGeometry()
			b := g.Typed(gen.AllTypes[k.Rng.Intn(6)], 0)
			k.In("domain", domain)
			k.In("a", shared.WKT(a))
			k.In("b", shared.WKT(b))
			Pair(k, domain, a, b)
		})
	}
	// polygons nested in holes: the second operand lives around a hole of the first (inside it,
	// crossing its ring, touching it), with a random start vertex — the containment probes of
	// the per-type-pair routines only look at one vertex of each operand
	// two triangular holes sharing one bounding box (complementary halves of a square, a gap between them), in
	// both ring orders, probed by points / lines / small polygons inside each hole, between them and around
	for i := 0; i < c.N(1200, 20000); i++ {
		c.Case("hole-boxes", i, func(k *run.K) {
			r := k.Rng
			n := r.Range(8, 11) // the holes live in [1,n]^2
			S := float64(n + 4)
			shell := []float64{0, 0, S, 0, S, S, 0, S, 0, 0}
			N := float64(n)
			g := float64(r.Range(1, 2)) // gap along the anti-diagonal
			h1 := []float64{1, 1, N - g, 1, 1, N - g, 1, 1}
			h2 := []float64{N, N, N, 1 + g, 1 + g, N, N, N}
			holes := [][]float64{h1, h2}
			if r.Bool() {
				holes[0], holes[1] = holes[1], holes[0]
			}
			a := geom.NewPolygonXY(shell, holes[0], holes[1]).AsGeometry()
			if r.Chance(1, 3) {
				a = geom.NewMultiPolygon([]geom.Polygon{a.MustAsPolygon()}).AsGeometry()
			}
			px, py := float64(r.Range(1, n)), float64(r.Range(1, n))
			if r.Bool() { // strictly inside one of the triangles, off the lattice
				px, py = px+0.25, py+0.5
			}
			var b geom.Geometry
			switch r.Intn(4) {
			case 0:
				b = geom.NewPointXY(px, py).AsGeometry()
			case 1:
				b = geom.NewMultiPointXY(px, py, px+0.25, py+0.25).AsGeometry()
			case 2:
				b = geom.NewLineStringXY(px, py, px+0.5, py+0.25).AsGeometry()
			default:
				b = geom.NewPolygonXY([]float64{px, py, px + 0.5, py, px + 0.5, py + 0.5, px, py}).AsGeometry()
			}
			if !exact.ValidGeom(a).OK || !exact.ValidGeom(b).OK {
				k.Skip("intersects-exact")
				return
			}
			k.In("domain", gen.DSmall)
			k.In("a", shared.WKT(a))
			k.In("b", shared.WKT(b))
			Pair(k, gen.DSmall, a, b)
			Pair(k, gen.DSmall, b, a)
		})
	}
	for i := 0; i < c.N(1500, 30000); i++ {
		c.Case("in-hole", i, func(k *run.K) {
			r := k.Rng
			S := r.Range(8, 12)
			hx, hy := r.Range(2, 4), r.Range(2, 4)
			hw, hh := r.Range(2, S-hx-2), r.Range(2, S-hy-2)
			shell := []float64{0, 0, float64(S), 0, float64(S), float64(S), 0, float64(S), 0, 0}
			hole := []float64{float64(hx), float64(hy), float64(hx + hw), float64(hy), float64(hx + hw), float64(hy + hh), float64(hx), float64(hy + hh), float64(hx), float64(hy)}
			if r.Bool() { // triangle hole
				hole = []float64{float64(hx), float64(hy), float64(hx + hw), float64(hy), float64(hx), float64(hy + hh), float64(hx), float64(hy)}
			}
			a := geom.NewPolygonXY(shell, hole).AsGeometry()
			// b: a small convex polygon / line / points around the hole
			var pts [][2]int
			for j := r.Range(3, 5); j > 0; j-- {
				pts = append(pts, [2]int{r.Range(hx-1, hx+hw+1), r.Range(hy-1, hy+hh+1)})
			}
			var b geom.Geometry
			switch r.Intn(4) {
			case 0, 1:
				fs := []float64{}
				for _, p := range pts {
					fs = append(fs, float64(p[0]), float64(p[1]))
				}
				h := geom.NewMultiPointXY(fs...).AsGeometry().ConvexHull()
				if h.IsPolygon() {
					// rotate the start vertex
					ring := h.MustAsPolygon().ExteriorRing().Coordinates()
					b = geom.NewPolygon([]geom.LineString{geom.NewLineString(shared.RotateRing(ring, r.Intn(ring.Length())))}).AsGeometry()
				} else {
					b = h
				}
			case 2:
				fs := []float64{}
				for _, p := range pts {
					fs = append(fs, float64(p[0]), float64(p[1]))
				}
				b = geom.NewLineStringXY(fs...).AsGeometry()
			default:
				b = geom.NewMultiPointXY(float64(pts[0][0]), float64(pts[0][1]), float64(pts[1][0]), float64(pts[1][1])).AsGeometry()
			}
			if !exact.ValidGeom(b).OK || !exact.ValidGeom(a).OK {
				k.Skip("intersects-exact")
				return
			}
			switch r.Intn(4) {
			case 0:
				a = geom.NewMultiPolygon([]geom.Polygon{a.MustAsPolygon()}).AsGeometry()
			case 1:
				if b.IsPolygon() {
					b = geom.NewMultiPolygon([]geom.Polygon{b.MustAsPolygon()}).AsGeometry()
				}
			case 2:
				a = geom.NewGeometryCollection([]geom.Geometry{a}).AsGeometry()
			}
			if r.Bool() {
				a, b = b, a
			}
			k.In("domain", gen.DSmall)
			k.In("a", shared.WKT(a))
			k.In("b", shared.WKT(b))
			Pair(k, gen.DSmall, a, b)
		})
	}
	// triples
	for i := 0; i < c.N(1200, 30000); i++ {
		c.Case("triple", i, func(k *run.K) {
			domain := shared.PickDomain(k.Rng)
			g := &gen.G{R: k.Rng, Cfg: gen.NewCfg(k.Rng, domain)}
			s := float64(g.Cfg.Side)
			a := g.Typed(gen.AllTypes[k.Rng.Intn(7)], 1)
			b := translate(g.Typed(gen.AllTypes[k.Rng.Intn(7)], 1), float64(k.Rng.Range(0, 2))*(s+1), 0)
			cc := translate(g.Typed(gen.AllTypes[k.Rng.Intn(7)], 1), float64(k.Rng.Range(0, 3))*(s+1), float64(k.Rng.Range(-1, 1))*(s+2))
			k.In("domain", domain)
			k.In("a", shared.WKT(a))
			k.In("b", shared.WKT(b))
			k.In("c", shared.WKT(cc))
			var dab, dbc, dac float64
			var o1, o2, o3 bool
			if k.Lib("nopanic", func() {
				dab, o1 = geom.Distance(a, b)
				dbc, o2 = geom.Distance(b, cc)
				dac, o3 = geom.Distance(a, cc)
			}) {
				return
			}
			if !(o1 && o2 && o3) {
				k.Skip("dist-triangle")
				return
			}
			M := math.Max(math.Max(exact.FromGeom(a).MaxAbs(), exact.FromGeom(b).MaxAbs()), exact.FromGeom(cc).MaxAbs())
			k.Nontrivial(string(a.AsBinary()) + "|" + string(b.AsBinary()) + "|" + string(cc.AsBinary()))
			k.Check("dist-triangle", dac <= dab+diam(b)+dbc+3e-9*M, "d(a,c)=%.17g > d(a,b)+diam(b)+d(b,c) = %.17g+%.17g+%.17g", dac, dab, diam(b), dbc)
		})
	}
}
