// Package c04 monitors WKB encoding/decoding against the neutral tree model
// and an independent WKB reader/writer.
package c04

import (
	"bytes"
	"database/sql/driver"
	"fmt"

	"github.com/peterstace/simplefeatures/geom"

	"verif/codec"
	"verif/exact"
	"verif/gen"
	"verif/model"
	"verif/props/shared"
	"verif/run"
)

func init() {
	run.Register(&run.Property{
		ID:    "C04",
		Title: "WKB encoding is lossless and decoding is its exact inverse",
		Rule: "[added in rounds 9-11: counts64k: points/members/ring vertices at 65535..70001 in every byte-order assignment; closing points equal under == but not bitwise] cases = arbitrary (not necessarily valid) homogeneous geometry trees over 7 types x 4 coordinate types, empty members at every position (empty Point inside MultiPoint/collections, typed empties), nesting <= 4, ordinates from all float64 classes incl. NaN/Inf in Z and M, plus valid lattice geometries for the Scan/Value adapters; each case checks library bytes against an independent writer, decodes under every per-element byte-order assignment (all 2^k for k<=6, 24 sampled beyond), trailing bytes, AppendWKB prefixes, Value/Scan into every Go type. " +
			"non-trivial = tree with >= 2 nodes, a non-XY coordinate type or an empty member; distinct by canonical WKB",
		Assumptions:      []string{"bitwise comparison of trees (NaN by bit pattern); the independent WKB codec in verif/codec is written from the ISO WKB layout", "Scan validates, so Scan round trips are only demanded for geometries the exact oracle accepts as valid"},
		MinNontrivial:    500,
		DeathIsViolation: true,
		Variants: []run.Variant{
			{Name: "thorough-checkptr", BuildFlags: []string{"-gcflags=all=-d=checkptr"}},
			{Name: "thorough-asan", BuildFlags: []string{"-asan"}},
		},
		RequiredMonitors: []string{"construct", "bytes-vs-independent", "roundtrip", "reencode", "independent-reader", "byteorder", "trailing", "append-prefix", "value", "scan-match", "scan-mismatch", "null", "input-unchanged", "receiver-reuse", "concrete-entry"},
		Run:              runAll,
	})
}

func treeOf(g geom.Geometry) model.Tree { t, _ := model.FromGeom(g); return t }

func checkTree(k *run.K, t model.Tree, scan bool) {
	var g geom.Geometry
	if k.Lib("nopanic", func() { g = model.ToGeom(t) }) {
		return
	}
	k.In("tree", t.String())
	got, issues := model.FromGeom(g)
	if !k.Check("construct", model.Equal(got, t) && len(issues) == 0, "constructors did not produce the intended tree: %s %v", model.Diff(got, t), issues) {
		return
	}
	if t.CountNodes() >= 2 || t.CT != geom.DimXY || !t.HasOrdinate() {
		k.Nontrivial(string(codec.EncodeWKB(t)))
	}
	var lib []byte
	if k.Lib("nopanic", func() { lib = g.AsBinary() }) {
		return
	}
	shared.ConcreteAgree(k, g, "concrete-entry", []shared.Call{{Method: "AsBinary"}, {Method: "AppendWKB", Args: []any{[]byte("prefix")}}, {Method: "Value"}}, nil)
	// the returned bytes belong to the caller: later encoding (of anything) must not change them
	{
		keep := append([]byte(nil), lib...)
		k.Lib("nopanic", func() {
			_ = g.AsBinary()
			_ = geom.NewLineStringXY(1, 2, 3, 4).AsGeometry().AsBinary()
			_ = geom.NewPointXYZ(7, 8, 9).AsBinary()
			_ = geom.NewPointXY(-1, -2).AsGeometry().AsBinary()
		})
		k.Check("reencode", bytes.Equal(lib, keep), "bytes returned by AsBinary changed after later AsBinary calls")
	}
	k.In("wkb", lib)
	want := codec.EncodeWKB(t)
	k.Check("bytes-vs-independent", bytes.Equal(lib, want), "AsBinary differs from the independent little-endian writer:\n lib  %x\n want %x", lib, want)
	// library decode of its own bytes
	var back geom.Geometry
	var err error
	if k.Lib("nopanic", func() { back, err = geom.UnmarshalWKB(lib, geom.NoValidate{}) }) {
		return
	}
	if err == nil {
		hp := shared.HiddenPayload(back)
		k.Check("roundtrip", hp == "", "UnmarshalWKB: %s", hp)
	}
	if k.Check("roundtrip", err == nil, "UnmarshalWKB(AsBinary) error: %v", err) {
		bt, iss := model.FromGeom(back)
		k.Check("roundtrip", model.Equal(bt, t) && len(iss) == 0, "decode(encode(g)) differs: %s %v", model.Diff(bt, t), iss)
		var again []byte
		if !k.Lib("nopanic", func() { again = back.AsBinary() }) {
			k.Check("reencode", bytes.Equal(again, lib), "re-encoding the decoded geometry gives different bytes")
		}
	}
	// independent reader on the library's bytes
	it, n, ierr := codec.DecodeWKB(lib)
	k.Check("independent-reader", ierr == nil && n == len(lib) && model.Equal(it, t), "independent reader on AsBinary: err=%v consumed %d/%d diff=%s", ierr, n, len(lib), model.Diff(it, t))
	// per-element byte order
	ne := codec.CountElems(t)
	var masks []uint64
	if ne <= 6 {
		for m := uint64(0); m < 1<<uint(ne); m++ {
			masks = append(masks, m)
		}
	} else {
		masks = append(masks, 0, ^uint64(0))
		for i := 0; i < 24; i++ {
			masks = append(masks, k.Rng.Uint64())
		}
	}
	var lastMixed []byte
	for _, m := range masks {
		m := m
		w := &codec.WKBWriter{Order: func(e int) bool { return m>>(uint(e)%64)&1 == 1 }}
		w.Write(t)
		var dg geom.Geometry
		var derr error
		snap := append([]byte(nil), w.Buf...)
		if k.Lib("nopanic", func() { dg, derr = geom.UnmarshalWKB(w.Buf, geom.NoValidate{}) }) {
			continue
		}
		// the decoder must not write to the caller's buffer, and decoding the same buffer again gives the same value
		k.Check("input-unchanged", bytes.Equal(snap, w.Buf), "UnmarshalWKB modified its input buffer (byte-order mask %b)\n before %x\n after  %x", m, snap, w.Buf)
		if derr == nil && bytes.Equal(snap, w.Buf) {
			var dg2 geom.Geometry
			var derr2 error
			if !k.Lib("nopanic", func() { dg2, derr2 = geom.UnmarshalWKB(w.Buf, geom.NoValidate{}) }) {
				k.Check("input-unchanged", derr2 == nil && model.Equal(treeOf(dg2), treeOf(dg)), "decoding the same buffer twice gives different values (mask %b): err=%v", m, derr2)
			}
		}
		lastMixed = w.Buf
		// the decoded value must not alias the caller's buffer: decode from a sub-slice at each alignment of a
		// larger buffer, scribble over it afterwards and look at the value again
		if derr == nil {
			off := (k.Index + int(m%8)) % 8
			big := make([]byte, off+len(w.Buf)+3)
			in := big[off : off+len(w.Buf)]
			copy(in, w.Buf)
			var ag geom.Geometry
			var aerr error
			if !k.Lib("nopanic", func() { ag, aerr = geom.UnmarshalWKB(in, geom.NoValidate{}) }) && aerr == nil {
				before := treeOf(ag)
				for i := range big {
					big[i] = 0xAA
				}
				after := treeOf(ag)
				k.Check("input-unchanged", model.Equal(before, after) && model.Equal(after, treeOf(dg)), "the decoded geometry changed when the caller overwrote the buffer it had been decoded from (offset %d, mask %b): %s", off, m, model.Diff(after, before))
			}
		}
		ok := derr == nil
		if ok {
			dt, iss := model.FromGeom(dg)
			ok = model.Equal(dt, t) && len(iss) == 0
			if !ok {
				k.Check("byteorder", false, "byte-order mask %b: decoded tree differs: %s\n bytes %x", m, model.Diff(dt, t), w.Buf)
				continue
			}
		}
		k.Check("byteorder", ok, "byte-order mask %b: decode error %v\n bytes %x", m, derr, w.Buf)
		k.Count("byteorder_assignments", 1)
	}
	// trailing bytes are ignored
	for _, tail := range [][]byte{{0}, {1, 2, 3}, {0xff, 0xff, 0xff, 0xff, 0xff, 0xff, 0xff, 0xff, 0xff}, lib} {
		var tg geom.Geometry
		var terr error
		buf := append(append([]byte(nil), lib...), tail...)
		if k.Lib("nopanic", func() { tg, terr = geom.UnmarshalWKB(buf, geom.NoValidate{}) }) {
			continue
		}
		k.Check("trailing", terr == nil && model.Equal(treeOf(tg), t), "with %d trailing bytes: err=%v", len(tail), terr)
	}
	// AppendWKB(prefix) = prefix || AsBinary
	for _, p := range [][]byte{nil, {}, {7}, []byte("prefix-bytes")} {
		var out []byte
		pc := append([]byte(nil), p...)
		if k.Lib("nopanic", func() { out = g.AppendWKB(pc) }) {
			continue
		}
		k.Check("append-prefix", bytes.Equal(out, append(append([]byte(nil), p...), lib...)), "AppendWKB(%x) != prefix||AsBinary", p)
	}
	// Value
	v, verr := g.Value()
	vb, isBytes := v.([]byte)
	k.Check("value", verr == nil && isBytes && bytes.Equal(vb, lib), "Geometry.Value() = %T err=%v differs from AsBinary", v, verr)
	if !scan {
		return
	}
	scanChecks(k, g, t, lib, lastMixed)
}

func scanChecks(k *run.K, g geom.Geometry, t model.Tree, lib, lastMixed []byte) {
	setPreused(k.Index%2 == 1)
	// into Geometry
	var sg geom.Geometry
	if err := sg.Scan(append([]byte(nil), lib...)); !k.Check("scan-match", err == nil && model.Equal(treeOf(sg), t), "Geometry.Scan: err=%v", err) {
		return
	}
	var ss geom.Geometry
	k.Check("scan-match", ss.Scan(string(lib)) == nil && model.Equal(treeOf(ss), t), "Geometry.Scan(string) failed")
	k.Check("scan-match", sg.Scan(42) != nil && sg.Scan(nil) != nil, "Geometry.Scan accepted an unsupported source type")
	type target struct {
		typ  geom.GeometryType
		scan func([]byte) (geom.Geometry, driverValue, error)
	}
	targets := []target{
		{geom.TypePoint, func(b []byte) (geom.Geometry, driverValue, error) {
			var x geom.Point
			if pre := preused[geom.TypePoint]; pre != nil { // the receiver already holds a value of its type
				_ = x.Scan(pre)
			}
			err := x.Scan(b)
			return x.AsGeometry(), x, err
		}},
		{geom.TypeLineString, func(b []byte) (geom.Geometry, driverValue, error) {
			var x geom.LineString
			if pre := preused[geom.TypeLineString]; pre != nil { // the receiver already holds a value of its type
				_ = x.Scan(pre)
			}
			err := x.Scan(b)
			return x.AsGeometry(), x, err
		}},
		{geom.TypePolygon, func(b []byte) (geom.Geometry, driverValue, error) {
			var x geom.Polygon
			if pre := preused[geom.TypePolygon]; pre != nil { // the receiver already holds a value of its type
				_ = x.Scan(pre)
			}
			err := x.Scan(b)
			return x.AsGeometry(), x, err
		}},
		{geom.TypeMultiPoint, func(b []byte) (geom.Geometry, driverValue, error) {
			var x geom.MultiPoint
			if pre := preused[geom.TypeMultiPoint]; pre != nil { // the receiver already holds a value of its type
				_ = x.Scan(pre)
			}
			err := x.Scan(b)
			return x.AsGeometry(), x, err
		}},
		{geom.TypeMultiLineString, func(b []byte) (geom.Geometry, driverValue, error) {
			var x geom.MultiLineString
			if pre := preused[geom.TypeMultiLineString]; pre != nil { // the receiver already holds a value of its type
				_ = x.Scan(pre)
			}
			err := x.Scan(b)
			return x.AsGeometry(), x, err
		}},
		{geom.TypeMultiPolygon, func(b []byte) (geom.Geometry, driverValue, error) {
			var x geom.MultiPolygon
			if pre := preused[geom.TypeMultiPolygon]; pre != nil { // the receiver already holds a value of its type
				_ = x.Scan(pre)
			}
			err := x.Scan(b)
			return x.AsGeometry(), x, err
		}},
		{geom.TypeGeometryCollection, func(b []byte) (geom.Geometry, driverValue, error) {
			var x geom.GeometryCollection
			if pre := preused[geom.TypeGeometryCollection]; pre != nil { // the receiver already holds a value of its type
				_ = x.Scan(pre)
			}
			err := x.Scan(b)
			return x.AsGeometry(), x, err
		}},
	}
	for _, tg := range targets {
		var out geom.Geometry
		var dv driverValue
		var err error
		if k.Lib("nopanic", func() { out, dv, err = tg.scan(append([]byte(nil), lib...)) }) {
			continue
		}
		if tg.typ == t.Type {
			ok := err == nil && model.Equal(treeOf(out), t)
			if ok {
				v, verr := dv.Value()
				vb, isB := v.([]byte)
				ok = verr == nil && isB && bytes.Equal(vb, lib)
			}
			k.Check("scan-match", ok, "%v.Scan/Value round trip: err=%v", tg.typ, err)
		} else {
			k.Check("scan-mismatch", err != nil, "scanning a %v into a %v succeeded", t.Type, tg.typ)
		}
	}
	// one shared buffer (mixed byte orders) through every adapter in turn: rejected scans must leave it intact
	if lastMixed != nil {
		shared := append([]byte(nil), lastMixed...)
		for _, tg := range targets {
			var out geom.Geometry
			var err error
			if k.Lib("nopanic", func() { out, _, err = tg.scan(shared) }) {
				continue
			}
			k.Check("input-unchanged", bytes.Equal(shared, lastMixed), "%v.Scan modified the buffer it was given", tg.typ)
			if tg.typ == t.Type {
				k.Check("input-unchanged", err == nil && model.Equal(treeOf(out), t), "%v.Scan of a buffer that other adapters had seen before: err=%v", tg.typ, err)
			}
		}
	}
	// a scanned value does not alias the driver's row buffer
	{
		off := k.Index % 8
		big := make([]byte, off+len(lib)+1)
		in := big[off : off+len(lib)]
		copy(in, lib)
		var x geom.Geometry
		var e error
		if !k.Lib("nopanic", func() { e = x.Scan(in) }) && e == nil {
			for i := range big {
				big[i] = 0x55
			}
			k.Check("input-unchanged", model.Equal(treeOf(x), t), "Geometry.Scan: the scanned value changed when the buffer was overwritten (offset %d)", off)
		}
	}
	// receivers that already hold a value are overwritten completely
	{
		prev := model.RandTree(k.Rng, t.Type, model.CTypes[k.Rng.Intn(4)], 1, model.ValueOpts{Simple: true})
		pb := codec.EncodeWKB(prev)
		var x geom.Geometry
		var e1, e2 error
		if !k.Lib("nopanic", func() { e1 = x.Scan(pb); e2 = x.Scan(append([]byte(nil), lib...)) }) {
			// (the first value is arbitrary and may be refused by validation: only the second scan is judged)
			k.Check("receiver-reuse", e2 == nil && model.Equal(treeOf(x), t), "Geometry.Scan into a receiver that was used before (%s: %v): %v, got %s", prev, e1, e2, treeOf(x))
		}
		var n2 geom.NullGeometry
		if !k.Lib("nopanic", func() { e1 = n2.Scan(pb); e2 = n2.Scan(nil) }) {
			k.Check("receiver-reuse", e2 == nil && !n2.Valid, "NullGeometry.Scan(nil) after a value: valid=%v err=%v", n2.Valid, e2)
		}
	}
	// NullGeometry
	var ng geom.NullGeometry
	e1 := ng.Scan(nil)
	v1, ve1 := ng.Value()
	okNull := e1 == nil && !ng.Valid && v1 == nil && ve1 == nil
	e2 := ng.Scan(append([]byte(nil), lib...))
	v2, ve2 := ng.Value()
	vb, _ := v2.([]byte)
	okNull = okNull && e2 == nil && ng.Valid && ve2 == nil && bytes.Equal(vb, lib) && model.Equal(treeOf(ng.Geometry), t)
	k.Check("null", okNull, "NullGeometry nil/bytes round trip failed: %v %v", e1, e2)
}

type driverValue = driver.Valuer

// preused: a valid WKB per type, scanned into concrete receivers before the scan that is judged (every
// second case), so that stale state of the receiver would show.
var preused = map[geom.GeometryType][]byte{}

func setPreused(on bool) {
	for k := range preused {
		delete(preused, k)
	}
	if !on {
		return
	}
	for _, wkt := range []string{"POINT ZM(9 9 9 9)", "LINESTRING Z(9 9 9,8 8 8,7 7 9)", "POLYGON M((0 0 1,9 0 2,9 9 3,0 0 1),(2 1 5,3 1 5,3 2 5,2 1 5))", "MULTIPOINT((9 9),(8 8),(7 7))",
		"MULTILINESTRING Z((9 9 9,8 8 8),(1 1 1,2 2 2))", "MULTIPOLYGON(((0 0,9 0,9 9,0 0)),((20 20,29 20,29 29,20 20)))", "GEOMETRYCOLLECTION ZM(POINT ZM(1 2 3 4),LINESTRING ZM(1 2 3 4,5 6 7 8))"} {
		g, err := geom.UnmarshalWKT(wkt)
		if err == nil {
			preused[g.Type()] = g.AsBinary()
		}
	}
}

func runAll(c *run.Ctx) {
	n := c.N(40000, 400000)
	if c.Variant != "" {
		n = 40000
	}
	for i := 0; i < n; i++ {
		c.Case("tree", i, func(k *run.K) {
			typ := model.Types[k.Rng.Intn(7)]
			ct := model.CTypes[k.Rng.Intn(4)]
			t := model.RandTree(k.Rng, typ, ct, 3, model.ValueOpts{NonFiniteZM: true})
			checkTree(k, t, false)
		})
	}
	// curves of every length 1..140 (and around 256, 512, 1024) followed by further curves
	sidx := 0
	sizes := []int{254, 255, 256, 257, 258, 511, 512, 513, 1023, 1024, 1025}
	for sn := 1; sn <= 140; sn++ {
		sizes = append(sizes, sn)
	}
	for _, sn := range sizes {
		for _, ct := range model.CTypes {
			for kind := 0; kind < 3; kind++ {
				sidx++
				sn, ct, kind := sn, ct, kind
				c.Case("sized", sidx, func(k *run.K) { checkTree(k, model.SizedTree(kind, sn, ct), kind != 1 && sn >= 2) })
			}
		}
	}
	// counts that need the third byte of the 32-bit count field (>= 2^16), in every byte-order assignment
	bidx := 0
	for _, bn := range []int{65535, 65536, 65537, 70001} {
		for _, kind := range []int{0, 2, 4} {
			bidx++
			bn, kind := bn, kind
			ct := model.CTypes[bidx%4]
			c.Case("counts64k", bidx, func(k *run.K) {
				k.Count("counts_at_or_above_65536", 1)
				checkTree(k, model.SizedTree(kind, bn, ct), kind == 0 || kind == 2)
			})
		}
	}
	// member / ring counts around powers of two (allocation caps): every member must come back
	cidx := 0
	for _, cn := range []int{255, 256, 257, 1023, 1024, 1025, 2049, 4097} {
		for _, kind := range []int{3, 4, 5} {
			cidx++
			cn, kind := cn, kind
			ct := model.CTypes[cidx%4]
			c.Case("counts", cidx, func(k *run.K) { checkTree(k, model.SizedTree(kind, cn, ct), false) })
		}
	}
	// typed empties of all 7x4
	idx := 0
	for _, typ := range model.Types {
		for _, ct := range model.CTypes {
			idx++
			c.Case("typed-empty", idx, func(k *run.K) {
				checkTree(k, model.Tree{Type: typ, CT: ct}, true)
			})
		}
	}
	m := c.N(8000, 80000)
	if c.Variant != "" {
		m = 5000
	}
	for i := 0; i < m; i++ {
		c.Case("valid", i, func(k *run.K) {
			g := &gen.G{R: k.Rng, Cfg: gen.NewCfg(k.Rng, gen.DSmall)}
			x := g.Rich(2)
			t, _ := model.FromGeom(x)
			t = model.SetZM(k.Rng, t, t.CT, model.ValueOpts{}, false)
			if !exact.ValidGeom(model.ToGeom(t)).OK {
				k.Skip("scan-match")
				return
			}
			checkTree(k, t, true)
		})
	}
	_ = fmt.Sprint
}
