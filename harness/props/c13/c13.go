// Package c13 monitors ConvexHull and the rotated minimum bounding rectangles
// with exact integer orientation tests and brute-force enumeration of the
// edge-aligned rectangles.
package c13

import (
	"bytes"
	"fmt"
	"math"
	"math/big"
	"sort"

	"github.com/peterstace/simplefeatures/geom"

	"verif/exact"
	"verif/gen"
	"verif/props/shared"
	"verif/run"
)

func init() {
	run.Register(&run.Property{
		ID:    "C13",
		Title: "ConvexHull is the minimal convex cover; rotated bounding rectangles enclose it",
		Rule: "[added in rounds 9-11: chain:<n>: hulls with nearly all vertices on one monotone chain; invariance under independent Z/M] cases = (a) point multisets of size 1..200 on small/large integer lattices with many duplicates and collinear runs (all-collinear, duplicate extremes, collinear boundary points), under all permutations for n<=5 and sampled permutations/duplications beyond; (b) valid geometries of every type (lattice and general-position floats). " +
			"Hull judged by exact orientation tests; rectangles against the exact minimum over all hull-edge-aligned rectangles. non-trivial = hull is a Polygon; distinct by the sorted control point multiset",
		Assumptions:      []string{"lattice inputs: every orientation and extent is exact (big.Rat); general-position inputs are judged on the covering claims only, within 1e-9*M"},
		MinNontrivial:    300,
		RequiredMonitors: []string{"hull-type", "hull-valid", "hull-strict", "hull-subset", "hull-cover", "hull-idem", "hull-perm", "rect-cover", "rect-edge", "rect-min-area", "rect-min-width", "rect-angles", "concrete-entry"},
		Run:              runAll,
	})
}

type ipt struct{ x, y int64 }

func crossI(o, a, b ipt) int64 { return (a.x-o.x)*(b.y-o.y) - (a.y-o.y)*(b.x-o.x) }

// refHull: independent reference (gift-wrapping-free: filter by definition).
// A point is a hull vertex iff it is not a convex combination of others; for
// the rank we only need collinearity of all points.
func rank(ps []ipt) int {
	if len(ps) == 0 {
		return -1
	}
	p0 := ps[0]
	var p1 *ipt
	for i := range ps {
		if ps[i] != p0 {
			p1 = &ps[i]
			break
		}
	}
	if p1 == nil {
		return 0
	}
	for _, p := range ps {
		if crossI(p0, *p1, p) != 0 {
			return 2
		}
	}
	return 1
}

func controlPoints(g geom.Geometry) []geom.XY {
	s := g.DumpCoordinates()
	out := make([]geom.XY, s.Length())
	for i := range out {
		out[i] = s.GetXY(i)
	}
	return out
}

func toI(ps []geom.XY) ([]ipt, bool) {
	out := make([]ipt, len(ps))
	for i, p := range ps {
		if p.X != math.Trunc(p.X) || p.Y != math.Trunc(p.Y) || math.Abs(p.X) > 1<<20 || math.Abs(p.Y) > 1<<20 {
			return nil, false
		}
		out[i] = ipt{int64(p.X), int64(p.Y)}
	}
	return out, true
}

func ringXY(p geom.Polygon) []geom.XY {
	s := p.ExteriorRing().Coordinates()
	out := make([]geom.XY, s.Length())
	for i := range out {
		out[i] = s.GetXY(i)
	}
	return out
}

func vertexSet(h geom.Geometry) string {
	ps := controlPoints(h)
	var ss []string
	seen := map[geom.XY]bool{}
	for _, p := range ps {
		if !seen[p] {
			seen[p] = true
			ss = append(ss, fmt.Sprintf("%v,%v", p.X, p.Y))
		}
	}
	sort.Strings(ss)
	return h.Type().String() + fmt.Sprint(ss)
}

// judgeHull checks the hull h of control points cps. lattice => exact.
func judgeHull(k *run.K, cps []geom.XY, h geom.Geometry, label string) {
	if len(cps) == 0 {
		k.Check("hull-type", h.IsEmpty(), "%s: hull of an empty geometry is %s", label, h.AsText())
		return
	}
	ips, lattice := toI(cps)
	if !lattice {
		// general position: covering within tolerance
		m := 1.0
		for _, p := range cps {
			m = math.Max(m, math.Max(math.Abs(p.X), math.Abs(p.Y)))
		}
		hs := exact.FromGeom(h)
		worst := 0.0
		for _, p := range cps {
			d, ok := exact.DistSqToShape(hs, exact.PF(p.X, p.Y))
			if !ok {
				worst = math.Inf(1)
				break
			}
			worst = math.Max(worst, exact.Sqrt(d))
		}
		k.Check("hull-cover", worst <= 1e-9*m, "%s: a control point is %.3g away from the hull %s", label, worst, h.AsText())
		return
	}
	rk := rank(ips)
	switch rk {
	case 0:
		ok := h.IsPoint() && !h.IsEmpty()
		if ok {
			xy, _ := h.MustAsPoint().XY()
			ok = xy == cps[0]
		}
		k.Check("hull-type", ok, "%s: all control points coincide at %v but hull is %s", label, cps[0], h.AsText())
	case 1:
		ok := h.IsLineString() && h.MustAsLineString().Coordinates().Length() == 2
		if ok {
			// endpoints are the two extreme points
			lo, hi := ips[0], ips[0]
			for _, p := range ips {
				if p.x < lo.x || (p.x == lo.x && p.y < lo.y) {
					lo = p
				}
				if p.x > hi.x || (p.x == hi.x && p.y > hi.y) {
					hi = p
				}
			}
			s := h.MustAsLineString().Coordinates()
			a, b := s.GetXY(0), s.GetXY(1)
			A, B := geom.XY{X: float64(lo.x), Y: float64(lo.y)}, geom.XY{X: float64(hi.x), Y: float64(hi.y)}
			ok = (a == A && b == B) || (a == B && b == A)
		}
		k.Check("hull-type", ok, "%s: control points are collinear but hull is %s", label, h.AsText())
	case 2:
		if !k.Check("hull-type", h.IsPolygon() && !h.IsEmpty() && h.MustAsPolygon().NumInteriorRings() == 0, "%s: control points have rank 2 but hull is %s", label, h.AsText()) {
			return
		}
		k.Check("hull-valid", exact.ValidGeom(h).OK && h.Validate() == nil && h.CoordinatesType() == geom.DimXY, "%s: hull polygon invalid: %s", label, h.AsText())
		ring, _ := toI(ringXY(h.MustAsPolygon()))
		n := len(ring) - 1
		if n < 3 {
			k.Check("hull-valid", false, "%s: hull ring too short %s", label, h.AsText())
			return
		}
		// strictly convex, consistent orientation
		sign := int64(0)
		strict := true
		for i := 0; i < n; i++ {
			c := crossI(ring[i], ring[(i+1)%n], ring[(i+2)%n])
			if c == 0 {
				strict = false
			}
			if sign == 0 {
				sign = c
			} else if (c > 0) != (sign > 0) {
				strict = false
			}
		}
		k.Check("hull-strict", strict, "%s: hull has collinear or reflex consecutive vertices: %s", label, h.AsText())
		// vertices are control points
		cpset := map[ipt]bool{}
		for _, p := range ips {
			cpset[p] = true
		}
		sub := true
		for _, v := range ring {
			if !cpset[v] {
				sub = false
			}
		}
		k.Check("hull-subset", sub, "%s: a hull vertex is not a control point: %s", label, h.AsText())
		// every control point inside or on (exact: same side of every edge)
		cover := true
		if strict {
			for _, p := range ips {
				for i := 0; i < n; i++ {
					c := crossI(ring[i], ring[i+1], p)
					if c != 0 && (c > 0) != (sign > 0) {
						cover = false
					}
				}
			}
		}
		k.Check("hull-cover", cover, "%s: a control point lies outside the hull %s", label, h.AsText())
	}
	// idempotent
	h2 := h.ConvexHull()
	k.Check("hull-idem", bytes.Equal(h2.AsBinary(), h.AsBinary()), "%s: hull of hull differs: %s vs %s", label, h2.AsText(), h.AsText())
}

func rat(i int64) *big.Rat { return new(big.Rat).SetInt64(i) }

// judgeRects checks both rotated rectangles for a lattice hull.
func judgeRects(k *run.K, g, h geom.Geometry) {
	for _, which := range []string{"area", "width"} {
		var r geom.Geometry
		if k.Lib("nopanic", func() {
			if which == "area" {
				r = geom.RotatedMinimumAreaBoundingRectangle(g)
			} else {
				r = geom.RotatedMinimumWidthBoundingRectangle(g)
			}
		}) {
			continue
		}
		label := "RotatedMinimum" + map[string]string{"area": "Area", "width": "Width"}[which] + "BoundingRectangle"
		if !h.IsPolygon() || h.IsEmpty() {
			// degenerate: returns the hull (or the empty geometry)
			k.Check("rect-cover", bytes.Equal(r.AsBinary(), h.AsBinary()) || (h.IsEmpty() && r.IsEmpty()), "%s of a degenerate hull %s returned %s", label, h.AsText(), r.AsText())
			continue
		}
		hv := ringXY(h.MustAsPolygon())
		m := 1.0
		for _, p := range hv {
			m = math.Max(m, math.Max(math.Abs(p.X), math.Abs(p.Y)))
		}
		if !r.IsPolygon() || r.IsEmpty() || r.MustAsPolygon().ExteriorRing().Coordinates().Length() != 5 || r.MustAsPolygon().NumInteriorRings() != 0 {
			k.Check("rect-angles", false, "%s returned %s for hull %s", label, r.AsText(), h.AsText())
			continue
		}
		rv := ringXY(r.MustAsPolygon())
		// four right angles
		okAng := true
		var sides [4]geom.XY
		for i := 0; i < 4; i++ {
			sides[i] = geom.XY{X: rv[i+1].X - rv[i].X, Y: rv[i+1].Y - rv[i].Y}
		}
		for i := 0; i < 4; i++ {
			a, b := sides[i], sides[(i+1)%4]
			la, lb := math.Hypot(a.X, a.Y), math.Hypot(b.X, b.Y)
			if !(la > 0 && lb > 0 && math.Abs(a.X*b.X+a.Y*b.Y) <= 1e-9*la*lb) {
				okAng = false
			}
		}
		if !k.Check("rect-angles", okAng && rv[0] == rv[4], "%s: not a rectangle: %s", label, r.AsText()) {
			continue
		}
		// covers every hull vertex within tol (signed distance to each side, consistent orientation)
		tol := 1e-9 * m
		orient := sides[0].X*sides[1].Y - sides[0].Y*sides[1].X
		cover := true
		for _, p := range hv {
			for i := 0; i < 4; i++ {
				s := sides[i]
				l := math.Hypot(s.X, s.Y)
				d := (s.X*(p.Y-rv[i].Y) - s.Y*(p.X-rv[i].X)) / l
				if orient < 0 {
					d = -d
				}
				if !(d >= -tol) {
					cover = false
				}
			}
		}
		k.Check("rect-cover", cover, "%s %s does not cover hull %s", label, r.AsText(), h.AsText())
		// one side collinear with a hull edge
		collinear := false
		nh := len(hv) - 1
		for i := 0; i < 4 && !collinear; i++ {
			s := sides[i]
			l := math.Hypot(s.X, s.Y)
			for j := 0; j < nh; j++ {
				d1 := math.Abs(s.X*(hv[j].Y-rv[i].Y)-s.Y*(hv[j].X-rv[i].X)) / l
				d2 := math.Abs(s.X*(hv[j+1].Y-rv[i].Y)-s.Y*(hv[j+1].X-rv[i].X)) / l
				if d1 <= tol && d2 <= tol {
					collinear = true
					break
				}
			}
		}
		k.Check("rect-edge", collinear, "%s %s has no side collinear with an edge of hull %s", label, r.AsText(), h.AsText())
		// exact minimum over all edge-aligned rectangles
		hi, lattice := toI(hv)
		if !lattice {
			continue
		}
		var bestArea, bestW2 *big.Rat
		for j := 0; j < nh; j++ {
			dx, dy := hi[j+1].x-hi[j].x, hi[j+1].y-hi[j].y
			var minD, maxD, minN, maxN int64
			for t, p := range hi[:nh] {
				d := (p.x-hi[j].x)*dx + (p.y-hi[j].y)*dy
				nn := (p.x-hi[j].x)*(-dy) + (p.y-hi[j].y)*dx
				if t == 0 || d < minD {
					minD = d
				}
				if t == 0 || d > maxD {
					maxD = d
				}
				if t == 0 || nn < minN {
					minN = nn
				}
				if t == 0 || nn > maxN {
					maxN = nn
				}
			}
			l2 := rat(dx*dx + dy*dy)
			// side lengths L = (maxD-minD)/|d|, H = (maxN-minN)/|d|
			area := new(big.Rat).Quo(new(big.Rat).Mul(rat(maxD-minD), rat(maxN-minN)), l2)
			L2 := new(big.Rat).Quo(new(big.Rat).Mul(rat(maxD-minD), rat(maxD-minD)), l2)
			H2 := new(big.Rat).Quo(new(big.Rat).Mul(rat(maxN-minN), rat(maxN-minN)), l2)
			w2 := L2
			if H2.Cmp(L2) < 0 {
				w2 = H2
			}
			if bestArea == nil || area.Cmp(bestArea) < 0 {
				bestArea = area
			}
			if bestW2 == nil || w2.Cmp(bestW2) < 0 {
				bestW2 = w2
			}
		}
		l0, l1 := math.Hypot(sides[0].X, sides[0].Y), math.Hypot(sides[1].X, sides[1].Y)
		if which == "area" {
			want := exact.F(bestArea)
			got := l0 * l1
			k.Check("rect-min-area", math.Abs(got-want) <= 1e-9*want, "%s: area %.12g, exact minimum over edge-aligned rectangles %.12g; hull %s rect %s", label, got, want, h.AsText(), r.AsText())
		} else {
			want := exact.Sqrt(bestW2)
			got := math.Min(l0, l1)
			k.Check("rect-min-width", math.Abs(got-want) <= 1e-9*want, "%s: width %.12g, exact minimum over edge-aligned rectangles %.12g; hull %s rect %s", label, got, want, h.AsText(), r.AsText())
		}
	}
}

func mpOf(ps []ipt) geom.Geometry {
	fs := make([]float64, 0, 2*len(ps))
	for _, p := range ps {
		fs = append(fs, float64(p.x), float64(p.y))
	}
	return geom.NewMultiPointXY(fs...).AsGeometry()
}

func genPoints(r *run.Rng, n int) []ipt {
	ps := make([]ipt, n)
	side := []int{2, 3, 4, 6, 20, 2048}[r.Intn(6)]
	off := int64(0)
	if side == 2048 {
		off = -1024
	}
	mode := r.Intn(6)
	for i := range ps {
		switch mode {
		case 0, 1, 2: // random lattice points
			ps[i] = ipt{int64(r.Intn(side+1)) + off, int64(r.Intn(side+1)) + off}
		case 3: // all collinear
			t := int64(r.Intn(side + 1))
			ps[i] = ipt{t + off, 2*t + off}
		case 4: // points on the boundary of a square (collinear boundary points, duplicate extremes)
			t := int64(r.Intn(side + 1))
			switch r.Intn(4) {
			case 0:
				ps[i] = ipt{t + off, off}
			case 1:
				ps[i] = ipt{t + off, int64(side) + off}
			case 2:
				ps[i] = ipt{off, t + off}
			default:
				ps[i] = ipt{int64(side) + off, t + off}
			}
		case 5: // two clusters of duplicates + a few others
			if r.Chance(2, 3) {
				ps[i] = []ipt{{off, off}, {int64(side) + off, int64(side) + off}, {off, int64(side) + off}}[r.Intn(3)]
			} else {
				ps[i] = ipt{int64(r.Intn(side+1)) + off, int64(r.Intn(side+1)) + off}
			}
		}
	}
	return ps
}

func permutations(n int) [][]int {
	var out [][]int
	p := make([]int, n)
	for i := range p {
		p[i] = i
	}
	var rec func(int)
	rec = func(i int) {
		if i == n {
			out = append(out, append([]int(nil), p...))
			return
		}
		for j := i; j < n; j++ {
			p[i], p[j] = p[j], p[i]
			rec(i + 1)
			p[i], p[j] = p[j], p[i]
		}
	}
	rec(0)
	return out
}

func pointCase(k *run.K, n int) { pointCaseWith(k, genPoints(k.Rng, n)) }

// chainPoints: points in (nearly) convex position with almost all of them on ONE monotone chain of the
// hull - a parabola arc or the partial sums of distinct direction vectors of one quadrant sorted by angle -
// closed by a single long edge, under a random symmetry of the square. One caliper step then has to travel
// most of the way round the ring.
func chainPoints(r *run.Rng, n int) []ipt {
	var ps []ipt
	if r.Bool() {
		a := r.Range(-3, 3)
		for i := 0; i < n && i < 30; i++ {
			x := a + i
			ps = append(ps, ipt{int64(x), int64(x * x)})
		}
	} else {
		seen := map[[2]int]bool{}
		var vs [][2]int
		for len(vs) < n-1 {
			dx, dy := r.Range(1, 7), r.Range(0, 7)
			g := gcd(dx, dy)
			v := [2]int{dx / g, dy / g}
			if !seen[v] {
				seen[v] = true
				vs = append(vs, v)
			}
		}
		sort.Slice(vs, func(i, j int) bool { return vs[i][1]*vs[j][0] < vs[j][1]*vs[i][0] })
		x, y := 0, 0
		ps = append(ps, ipt{0, 0})
		for _, v := range vs {
			x, y = x+v[0], y+v[1]
			ps = append(ps, ipt{int64(x), int64(y)})
		}
	}
	if r.Chance(1, 3) { // one more point on the other side of the closing edge
		a, b := ps[0], ps[len(ps)-1]
		ps = append(ps, ipt{(a.x+b.x)/2 - (b.y-a.y)/4 - 1, (a.y+b.y)/2 + (b.x-a.x)/4 + 1})
	}
	sw, nx, ny := r.Bool(), r.Bool(), r.Bool()
	tx, ty := int64(r.Range(-20, 20)), int64(r.Range(-20, 20))
	for i, p := range ps {
		if sw {
			p.x, p.y = p.y, p.x
		}
		if nx {
			p.x = -p.x
		}
		if ny {
			p.y = -p.y
		}
		ps[i] = ipt{p.x + tx, p.y + ty}
	}
	// random start of the input order
	rot := r.Intn(len(ps))
	return append(append([]ipt(nil), ps[rot:]...), ps[:rot]...)
}

func gcd(a, b int) int {
	for b != 0 {
		a, b = b, a%b
	}
	if a == 0 {
		return 1
	}
	return a
}

func pointCaseWith(k *run.K, ps []ipt) {
	n := len(ps)
	g := mpOf(ps)
	k.In("points", shared.WKT(g))
	var h geom.Geometry
	if k.Lib("nopanic", func() { h = g.ConvexHull() }) {
		return
	}
	shared.ConcreteAgree(k, g, "concrete-entry", []shared.Call{{Method: "ConvexHull"}}, nil)
	k.Obs("hull", shared.WKT(h))
	cps := controlPoints(g)
	if rank(ps) == 2 {
		sorted := append([]ipt(nil), ps...)
		sort.Slice(sorted, func(i, j int) bool {
			if sorted[i].x != sorted[j].x {
				return sorted[i].x < sorted[j].x
			}
			return sorted[i].y < sorted[j].y
		})
		k.Nontrivial(fmt.Sprint(sorted))
	}
	judgeHull(k, cps, h, "ConvexHull(MultiPoint)")
	judgeRects(k, g, h)
	// order / multiplicity independence
	ref := vertexSet(h)
	var perms [][]int
	if n <= 5 {
		perms = permutations(n)
	} else {
		for i := 0; i < 12; i++ {
			perms = append(perms, k.Rng.Perm(n))
		}
	}
	for _, p := range perms {
		q := make([]ipt, 0, n+3)
		for _, j := range p {
			q = append(q, ps[j])
		}
		if k.Rng.Bool() { // duplications
			for d := 0; d < 3; d++ {
				q = append(q, ps[k.Rng.Intn(n)])
			}
		}
		var h2 geom.Geometry
		if k.Lib("nopanic", func() { h2 = mpOf(q).ConvexHull() }) {
			continue
		}
		k.Check("hull-perm", vertexSet(h2) == ref, "hull depends on order/multiplicity: %s vs %s", h2.AsText(), h.AsText())
	}
	// the same points as a LineString and inside a collection
	if n >= 2 {
		fs := make([]float64, 0, 2*n)
		for _, p := range ps {
			fs = append(fs, float64(p.x), float64(p.y))
		}
		ls := geom.NewLineStringXY(fs...).AsGeometry()
		gc := geom.NewGeometryCollection([]geom.Geometry{ls, mpOf(ps[:1])}).AsGeometry()
		for _, x := range []geom.Geometry{ls, gc} {
			var h3 geom.Geometry
			if !k.Lib("nopanic", func() { h3 = x.ConvexHull() }) {
				k.Check("hull-perm", vertexSet(h3) == ref, "hull of %s differs from hull of the same points as MultiPoint: %s vs %s", x.Type(), h3.AsText(), h.AsText())
			}
		}
	}
}

func geomCase(k *run.K) {
	domain := shared.PickDomain(k.Rng)
	gg := &gen.G{R: k.Rng, Cfg: gen.NewCfg(k.Rng, domain)}
	if domain == gen.DGP && k.Rng.Chance(1, 3) {
		// projected-coordinate magnitudes: a few units of extent at an offset of 1e5..1e7 (the covering
		// tolerance 1e-9*M is then still far below the extent)
		off := []int{100000, 1350000, 13500000}[k.Rng.Intn(3)]
		gg.Cfg.Side = 12
		gg.Cfg.OffX, gg.Cfg.OffY = off+k.Rng.Range(-1000, 1000), off/3+k.Rng.Range(-1000, 1000)
		if k.Rng.Bool() {
			gg.Cfg.OffX = -gg.Cfg.OffX
		}
		domain = "D-gp-offset"
		k.Count("offset_float_cases", 1)
	}
	g := gg.Rich(2)
	k.In("domain", domain)
	k.In("g", shared.WKT(g))
	var h geom.Geometry
	if k.Lib("nopanic", func() { h = g.ConvexHull() }) {
		return
	}
	k.Obs("hull", shared.WKT(h))
	if h.IsPolygon() {
		k.Nontrivial(string(g.AsBinary()))
	}
	judgeHull(k, controlPoints(g), h, "ConvexHull("+g.Type().String()+")")
	if domain != gen.DGP && domain != "D-gp-offset" {
		judgeRects(k, g, h)
	}
	// representation independence: reversed and force-oriented inputs give the same hull
	for name, v := range map[string]geom.Geometry{"Reverse": g.Reverse(), "ForceCW": g.ForceCW(), "ForceCCW": g.ForceCCW(),
		"independent Z/M at every control point": shared.Payload(k.Rng, g, shared.PayloadCT(k.Rng))} {
		var h2 geom.Geometry
		if !k.Lib("nopanic", func() { h2 = v.ConvexHull() }) {
			k.Check("hull-perm", vertexSet(h2) == vertexSet(h) && h2.IsCCW() == h.IsCCW(), "hull changes under %s of the input: %s vs %s", name, h2.AsText(), h.AsText())
			if domain != gen.DGP && domain != "D-gp-offset" && h2.IsPolygon() {
				judgeRects(k, v, h2)
			}
		}
	}
}

// offsetPointCase: float point sets a few units across with two-decimal detail at offsets of 1e5..1e7
// (projected-coordinate magnitudes). The covering tolerance 1e-9*M stays two orders below the detail.
func offsetPointCase(k *run.K, n int) {
	r := k.Rng
	offX := []float64{1e5, 1.35e6, 1.35e7, -1.35e7}[r.Intn(4)]
	offY := offX/3 + float64(r.Range(-1000, 1000))
	ext := []int{2, 3, 10, 50}[r.Intn(4)]
	fs := make([]float64, 0, 2*n)
	for i := 0; i < n; i++ {
		fs = append(fs, offX+float64(r.Intn(ext*100+1))/100, offY+float64(r.Intn(ext*100+1))/100)
	}
	var g geom.Geometry
	switch r.Intn(3) {
	case 0:
		g = geom.NewMultiPointXY(fs...).AsGeometry()
	case 1:
		g = geom.NewLineStringXY(fs...).AsGeometry()
	default:
		half := (n / 2) * 2
		g = geom.NewMultiLineStringXY(fs[:half], fs[half:]).AsGeometry()
	}
	k.In("points", shared.WKT(g))
	k.Nontrivial(string(g.AsBinary()))
	var h geom.Geometry
	if k.Lib("nopanic", func() { h = g.ConvexHull() }) {
		return
	}
	k.Obs("hull", shared.WKT(h))
	judgeHull(k, controlPoints(g), h, "ConvexHull(offset floats)")
	// the hull of the hull covers the same points
	var h2 geom.Geometry
	if !k.Lib("nopanic", func() { h2 = h.ConvexHull() }) {
		judgeHull(k, controlPoints(g), h2, "ConvexHull(ConvexHull(offset floats))")
	}
	k.Count("offset_float_cases", 1)
}

func runAll(c *run.Ctx) {
	for _, n := range []int{3, 5, 7, 12, 30, 80} {
		for i := 0; i < c.N(300, 4000); i++ {
			c.Case(fmt.Sprintf("points-offset:%d", n), i, func(k *run.K) { offsetPointCase(k, n) })
		}
	}
	sizes := []int{1, 2, 3, 4, 5, 6, 7, 8, 10, 13, 20, 50, 100, 200}
	for _, n := range sizes {
		reps := c.N(400, 4000)
		if n <= 5 {
			reps = c.N(200, 1500)
		}
		for i := 0; i < reps; i++ {
			c.Case(fmt.Sprintf("points:%d", n), i, func(k *run.K) { pointCase(k, n) })
		}
	}
	for _, n := range []int{6, 9, 10, 12, 14, 17, 20, 25, 30} {
		for i := 0; i < c.N(60, 600); i++ {
			c.Case(fmt.Sprintf("chain:%d", n), i, func(k *run.K) { pointCaseWith(k, chainPoints(k.Rng, n)) })
		}
	}
	for i := 0; i < c.N(12000, 150000); i++ {
		c.Case("geom", i, geomCase)
	}
}
