// Package c16 monitors coordinate-type bookkeeping: one coordinate type at
// every node, ForceCoordinatesType semantics, Z/M carried with their XY
// through structure-preserving operations, XY-only results elsewhere.
package c16

import (
	"fmt"
	"math"
	"sort"

	"github.com/peterstace/simplefeatures/geom"

	"verif/exact"
	"verif/gen"
	"verif/model"
	"verif/props/shared"
	"verif/run"
)

func init() {
	run.Register(&run.Property{
		ID:    "C16",
		Title: "Coordinate type and Z/M payload are carried consistently through every operation",
		Rule: "cases = geometry trees of 7 types x 4 coordinate types (arbitrary homogeneous trees and valid lattice geometries, empty members at every position, typed empties) whose Z and M are unique tags (z=1000+i, m=-1000-i), and collections/multi-geometries/polygons constructed from members of different coordinate types; every operation in the statement's list is applied and the coordinate type of every node reachable through accessors and the (XY -> Z,M) association of every vertex are compared before and after. " +
			"non-trivial = tree with Z or M and at least one ordinate, or a mixed-type construction; distinct by WKB (+ construction recipe)",
		Assumptions:      []string{"unique Z/M tags make the vertex association unambiguous; tuples are compared as multisets (and as subsequences for Densify)"},
		MinNontrivial:    500,
		RequiredMonitors: []string{"uniform-ctype", "force", "constructor-reduce", "preserve-Reverse", "preserve-TransformXY", "preserve-SnapToGrid", "preserve-Densify", "preserve-Dump", "preserve-DumpCoordinates", "preserve-AsMulti", "preserve-ForceCW", "preserve-roundtrip", "xy-only", "concrete-entry"},
		Run:              runAll,
	})
}

func treeOf(g geom.Geometry) (model.Tree, []string) { return model.FromGeom(g) }

type tup [4]float64

func tuples(t model.Tree, f func(x, y float64) (float64, float64)) []tup {
	var out []tup
	var rec func(n model.Tree)
	rec = func(n model.Tree) {
		d := n.CT.Dimension()
		for i := 0; i+d <= len(n.Coords); i += d {
			u := tup{n.Coords[i], n.Coords[i+1], math.Inf(1), math.Inf(1)}
			if f != nil {
				u[0], u[1] = f(u[0], u[1])
			}
			j := i + 2
			if n.CT.Is3D() {
				u[2] = n.Coords[j]
				j++
			}
			if n.CT.IsMeasured() {
				u[3] = n.Coords[j]
			}
			out = append(out, u)
		}
		for _, k := range n.Kids {
			rec(k)
		}
	}
	rec(t)
	sort.Slice(out, func(i, j int) bool {
		for d := 0; d < 4; d++ {
			if out[i][d] != out[j][d] {
				return out[i][d] < out[j][d]
			}
		}
		return false
	})
	return out
}

func sameTuples(a, b []tup) bool {
	if len(a) != len(b) {
		return false
	}
	for i := range a {
		for d := 0; d < 4; d++ {
			if a[i][d] != b[i][d] && !(a[i][d] == 0 && b[i][d] == 0) {
				return false
			}
		}
	}
	return true
}

// forceTree is the harness's model of ForceCoordinatesType.
func forceTree(t model.Tree, ct geom.CoordinatesType) model.Tree {
	out := model.Tree{Type: t.Type, CT: ct}
	d := t.CT.Dimension()
	for i := 0; i+d <= len(t.Coords); i += d {
		out.Coords = append(out.Coords, t.Coords[i], t.Coords[i+1])
		j := i + 2
		var z, m float64
		if t.CT.Is3D() {
			z = t.Coords[j]
			j++
		}
		if t.CT.IsMeasured() {
			m = t.Coords[j]
		}
		if ct.Is3D() {
			out.Coords = append(out.Coords, z)
		}
		if ct.IsMeasured() {
			out.Coords = append(out.Coords, m)
		}
	}
	for _, k := range t.Kids {
		out.Kids = append(out.Kids, forceTree(k, ct))
	}
	return out
}

func uniform(k *run.K, mon, what string, g geom.Geometry, want geom.CoordinatesType) (model.Tree, bool) {
	t, issues := treeOf(g)
	ok, where := t.UniformCT()
	return t, k.Check(mon, ok && len(issues) == 0 && t.CT == want, "%s: coordinate types not uniform/expected (want %v everywhere): %s %v in %s", what, want, where, issues, t)
}

func and(a, b geom.CoordinatesType) geom.CoordinatesType {
	z, m := a.Is3D() && b.Is3D(), a.IsMeasured() && b.IsMeasured()
	switch {
	case z && m:
		return geom.DimXYZM
	case z:
		return geom.DimXYZ
	case m:
		return geom.DimXYM
	}
	return geom.DimXY
}

func opsOn(k *run.K, t model.Tree) {
	var g geom.Geometry
	if k.Lib("nopanic", func() { g = model.ToGeom(t) }) {
		return
	}
	k.In("tree", t.String())
	got, issues := treeOf(g)
	if !k.Check("uniform-ctype", model.Equal(got, t) && len(issues) == 0, "constructed geometry differs from the intended homogeneous tree: %s %v", model.Diff(got, t), issues) {
		return
	}
	ct := t.CT
	if ct != geom.DimXY && t.HasOrdinate() {
		k.Nontrivial(string(g.AsBinary()))
	}
	base := tuples(t, nil)
	shared.ConcreteAgree(k, g, "concrete-entry", concreteCalls, nil)
	// a sequence handed out earlier keeps its values whatever is dumped afterwards (also from geometries
	// that share members with g and whose storage has spare capacity, as parsed geometries do)
	if pg, perr := geom.UnmarshalWKT(g.AsText(), geom.NoValidate{}); perr == nil {
		var first geom.Sequence
		if !k.Lib("nopanic", func() { first = pg.DumpCoordinates() }) {
			keep := shared.Digest(first)
			k.Lib("nopanic", func() {
				_ = pg.DumpCoordinates()
				_ = geom.NewGeometryCollection([]geom.Geometry{pg, pg.Reverse()}).DumpCoordinates()
				_ = pg.Reverse().DumpCoordinates()
				_ = pg.ForceCCW().DumpCoordinates()
				_ = pg.ForceCW().DumpCoordinates()
				if pg.IsGeometryCollection() { // the same first members followed by something else
					ms := pg.MustAsGeometryCollection().Dump()
					if len(ms) > 1 {
						ms[len(ms)-1] = geom.NewPointXY(-77, -77).AsGeometry().ForceCoordinatesType(pg.CoordinatesType())
						_ = geom.NewGeometryCollection(ms).DumpCoordinates()
					}
				}
			})
			k.Check("preserve-DumpCoordinates", shared.Digest(first) == keep, "a Sequence returned by DumpCoordinates changed after later DumpCoordinates calls on related geometries")
		}
	}
	// ForceCoordinatesType to every target, Force2D
	for _, target := range model.CTypes {
		var f geom.Geometry
		if k.Lib("nopanic", func() { f = g.ForceCoordinatesType(target) }) {
			continue
		}
		ft, iss := treeOf(f)
		want := forceTree(t, target)
		k.Check("force", model.Equal(ft, want) && len(iss) == 0, "ForceCoordinatesType(%v): %s %v", target, model.Diff(ft, want), iss)
		hp := shared.HiddenPayload(f)
		k.Check("force", hp == "", "ForceCoordinatesType(%v): a dropped dimension is still there: %s", target, hp)
	}
	// chains: a dimension that was dropped must not come back with its old values
	for _, t1 := range model.CTypes {
		for _, t2 := range model.CTypes {
			if t1 == ct || t2 == t1 {
				continue
			}
			var f geom.Geometry
			if k.Lib("nopanic", func() { f = g.ForceCoordinatesType(t1).ForceCoordinatesType(t2) }) {
				continue
			}
			ft, iss := treeOf(f)
			want := forceTree(forceTree(t, t1), t2)
			k.Check("force", model.Equal(ft, want) && len(iss) == 0, "ForceCoordinatesType(%v) then (%v): %s %v", t1, t2, model.Diff(ft, want), iss)
		}
	}
	var f2 geom.Geometry
	if !k.Lib("nopanic", func() { f2 = g.Force2D() }) {
		ft, _ := treeOf(f2)
		k.Check("force", model.Equal(ft, forceTree(t, geom.DimXY)), "Force2D: %s", model.Diff(ft, forceTree(t, geom.DimXY)))
	}
	// structure preserving operations
	type op struct {
		name string
		mon  string
		fn   func() geom.Geometry
		xy   func(x, y float64) (float64, float64)
	}
	ops := []op{
		{"Reverse", "preserve-Reverse", func() geom.Geometry { return g.Reverse() }, nil},
		{"ForceCW", "preserve-ForceCW", func() geom.Geometry { return g.ForceCW() }, nil},
		{"ForceCCW", "preserve-ForceCW", func() geom.Geometry { return g.ForceCCW() }, nil},
		{"TransformXY", "preserve-TransformXY", func() geom.Geometry {
			return g.TransformXY(func(p geom.XY) geom.XY { return geom.XY{X: p.X + 3, Y: p.Y - 7} })
		}, func(x, y float64) (float64, float64) { return x + 3, y - 7 }},
		{"SnapToGrid(0)", "preserve-SnapToGrid", func() geom.Geometry { return g.SnapToGrid(0) }, func(x, y float64) (float64, float64) { return math.Round(x), math.Round(y) }},
		{"WKB round trip", "preserve-roundtrip", func() geom.Geometry {
			r, err := geom.UnmarshalWKB(g.AsBinary(), geom.NoValidate{})
			if err != nil {
				panic(fmt.Sprintf("harness: WKB round trip failed: %v", err))
			}
			return r
		}, nil},
	}
	finite := true
	for _, u := range base {
		if math.IsNaN(u[0]) || math.IsNaN(u[1]) {
			finite = false
		}
	}
	if finite {
		ops = append(ops, op{"WKT round trip", "preserve-roundtrip", func() geom.Geometry {
			r, err := geom.UnmarshalWKT(g.AsText(), geom.NoValidate{})
			if err != nil {
				panic(fmt.Sprintf("harness: WKT round trip failed: %v", err))
			}
			return r
		}, nil})
	}
	for _, o := range ops {
		var r geom.Geometry
		if k.Lib("nopanic", func() { r = o.fn() }) {
			continue
		}
		rt, ok := uniform(k, o.mon, o.name, r, ct)
		if !ok {
			continue
		}
		k.Check(o.mon, rt.Type == t.Type && sameTuples(tuples(rt, nil), tuples(t, o.xy)), "%s does not carry every vertex's Z/M with its XY:\n before %s\n after  %s", o.name, t, rt)
	}
	// Densify
	if t.HasOrdinate() {
		var r geom.Geometry
		if !k.Lib("nopanic", func() { r = g.Densify(0.75) }) {
			if rt, ok := uniform(k, "preserve-Densify", "Densify", r, ct); ok {
				k.Check("preserve-Densify", densifyOK(t, rt), "Densify: original vertices do not keep their Z/M or inserted vertices are not between their neighbours:\n before %s\n after  %s", t, rt)
			}
		}
	}
	// Dump, DumpCoordinates, DumpRings, AsMulti*
	var parts []geom.Geometry
	if !k.Lib("nopanic", func() { parts = g.Dump() }) {
		var all []tup
		okD := true
		for _, p := range parts {
			pt, iss := treeOf(p)
			u, _ := pt.UniformCT()
			if !u || len(iss) > 0 || pt.CT != ct || p.IsGeometryCollection() {
				okD = false
			}
			all = append(all, tuples(pt, nil)...)
		}
		sort.Slice(all, func(i, j int) bool {
			for d := 0; d < 4; d++ {
				if all[i][d] != all[j][d] {
					return all[i][d] < all[j][d]
				}
			}
			return false
		})
		k.Check("preserve-Dump", okD && sameTuples(all, base), "Dump(): parts do not keep the coordinate type / the vertices of %s", t)
	}
	var seq geom.Sequence
	if !k.Lib("nopanic", func() { seq = g.DumpCoordinates() }) {
		st := model.Tree{Type: geom.TypeLineString, CT: seq.CoordinatesType()}
		for i := 0; i < seq.Length(); i++ {
			c := seq.Get(i)
			st.Coords = append(st.Coords, c.X, c.Y)
			if seq.CoordinatesType().Is3D() {
				st.Coords = append(st.Coords, c.Z)
			}
			if seq.CoordinatesType().IsMeasured() {
				st.Coords = append(st.Coords, c.M)
			}
		}
		k.Check("preserve-DumpCoordinates", seq.CoordinatesType() == ct && sameTuples(tuples(st, nil), base), "DumpCoordinates(): coordinate type %v (want %v) or vertices differ for %s", seq.CoordinatesType(), ct, t)
	}
	if g.IsPolygon() {
		for i, r := range g.MustAsPolygon().DumpRings() {
			k.Check("preserve-Dump", r.CoordinatesType() == ct && r.Coordinates().CoordinatesType() == ct, "DumpRings()[%d] reports %v, polygon is %v", i, r.CoordinatesType(), ct)
		}
	}
	var am geom.Geometry
	amOK := true
	switch g.Type() {
	case geom.TypePoint:
		k.Lib("nopanic", func() { am = g.MustAsPoint().AsMultiPoint().AsGeometry() })
	case geom.TypeLineString:
		k.Lib("nopanic", func() { am = g.MustAsLineString().AsMultiLineString().AsGeometry() })
	case geom.TypePolygon:
		k.Lib("nopanic", func() { am = g.MustAsPolygon().AsMultiPolygon().AsGeometry() })
	default:
		amOK = false
	}
	if amOK {
		if mt, ok := uniform(k, "preserve-AsMulti", "AsMulti*", am, ct); ok {
			k.Check("preserve-AsMulti", sameTuples(tuples(mt, nil), base), "AsMulti* changes the vertices of %s: %s", t, mt)
		}
	}
	// XY-only operations
	valid := exact.ValidGeom(g).OK
	xyOps := map[string]func() geom.Geometry{
		"Centroid":            func() geom.Geometry { return g.Centroid().AsGeometry() },
		"Envelope.AsGeometry": func() geom.Geometry { return g.Envelope().AsGeometry() },
		"Boundary":            nil,
	}
	if finite {
		xyOps["ConvexHull"] = func() geom.Geometry { return g.ConvexHull() }
	}
	if valid {
		xyOps["PointOnSurface"] = func() geom.Geometry { return g.PointOnSurface().AsGeometry() }
		xyOps["UnaryUnion"] = func() geom.Geometry { r, _ := geom.UnaryUnion(g); return r }
		xyOps["Union(g,g)"] = func() geom.Geometry { r, _ := geom.Union(g, g); return r }
		xyOps["Intersection(g,g)"] = func() geom.Geometry { r, _ := geom.Intersection(g, g); return r }
		xyOps["Difference(g,point)"] = func() geom.Geometry {
			r, _ := geom.Difference(g, geom.NewPointXY(12345, 54321).AsGeometry().ForceCoordinatesType(ct))
			return r
		}
		xyOps["SymmetricDifference(g,∅)"] = func() geom.Geometry {
			r, _ := geom.SymmetricDifference(g, geom.Polygon{}.ForceCoordinatesType(ct).AsGeometry())
			return r
		}
	}
	for name, fn := range xyOps {
		if fn == nil {
			continue
		}
		var r geom.Geometry
		if k.Lib("nopanic", func() { r = fn() }) {
			continue
		}
		uniform(k, "xy-only", name, r, geom.DimXY)
	}
}

// densifyOK: per curve, the original tuples form a subsequence of the result
// and every inserted tuple lies between its bracketing originals in every dimension.
func densifyOK(before, after model.Tree) bool {
	if before.Type != after.Type || len(before.Kids) != len(after.Kids) {
		return false
	}
	if before.Type == geom.TypeLineString {
		d := before.CT.Dimension()
		nb, na := len(before.Coords)/d, len(after.Coords)/d
		if nb == 0 {
			return na == 0
		}
		j := 0
		for i := 0; i < nb; i++ {
			orig := before.Coords[i*d : i*d+d]
			// advance j to the occurrence of orig
			found := false
			for ; j < na; j++ {
				cur := after.Coords[j*d : j*d+d]
				same := true
				for x := 0; x < d; x++ {
					if cur[x] != orig[x] {
						same = false
					}
				}
				if same {
					found = true
					j++
					break
				}
				// an inserted vertex: must lie between before[i-1] and before[i]
				if i == 0 {
					return false
				}
				prev := before.Coords[(i-1)*d : (i-1)*d+d]
				for x := 0; x < d; x++ {
					lo, hi := math.Min(prev[x], orig[x]), math.Max(prev[x], orig[x])
					if !(cur[x] >= lo-1e-9 && cur[x] <= hi+1e-9) {
						return false
					}
				}
			}
			if !found {
				return false
			}
		}
		return j == na
	}
	if before.Type == geom.TypePoint {
		return model.Equal(before, after)
	}
	for i := range before.Kids {
		if !densifyOK(before.Kids[i], after.Kids[i]) {
			return false
		}
	}
	return true
}

// mixed constructions: members with different coordinate types.
func mixed(k *run.K) {
	r := k.Rng
	pick := func(typ geom.GeometryType) (model.Tree, geom.Geometry) {
		ct := model.CTypes[r.Intn(4)]
		t := model.RandTree(r, typ, ct, 1, model.ValueOpts{Simple: true})
		t = model.SetZM(r, t, ct, model.ValueOpts{}, true)
		return t, model.ToGeom(t)
	}
	kind := r.Intn(5)
	n := r.Range(1, 4)
	var ts []model.Tree
	var gs []geom.Geometry
	subtype := []geom.GeometryType{geom.TypePoint, geom.TypeLineString, geom.TypePolygon, geom.TypeLineString, geom.TypePoint}[kind]
	for i := 0; i < n; i++ {
		typ := subtype
		if kind == 4 {
			typ = model.Types[r.Intn(7)]
		}
		t, g := pick(typ)
		ts, gs = append(ts, t), append(gs, g)
	}
	want := geom.DimXYZM
	for _, t := range ts {
		want = and(want, t.CT)
	}
	var res geom.Geometry
	var wantTree model.Tree
	name := ""
	if k.Lib("nopanic", func() {
		switch kind {
		case 0:
			name = "NewMultiPoint"
			ps := make([]geom.Point, n)
			for i := range ps {
				ps[i] = gs[i].MustAsPoint()
			}
			res = geom.NewMultiPoint(ps).AsGeometry()
			wantTree = model.Tree{Type: geom.TypeMultiPoint}
		case 1:
			name = "NewMultiLineString"
			ls := make([]geom.LineString, n)
			for i := range ls {
				ls[i] = gs[i].MustAsLineString()
			}
			res = geom.NewMultiLineString(ls).AsGeometry()
			wantTree = model.Tree{Type: geom.TypeMultiLineString}
		case 2:
			name = "NewMultiPolygon"
			ps := make([]geom.Polygon, n)
			for i := range ps {
				ps[i] = gs[i].MustAsPolygon()
			}
			res = geom.NewMultiPolygon(ps).AsGeometry()
			wantTree = model.Tree{Type: geom.TypeMultiPolygon}
		case 3:
			name = "NewPolygon"
			ls := make([]geom.LineString, n)
			for i := range ls {
				ls[i] = gs[i].MustAsLineString()
			}
			res = geom.NewPolygon(ls).AsGeometry()
			wantTree = model.Tree{Type: geom.TypePolygon}
		default:
			name = "NewGeometryCollection"
			res = geom.NewGeometryCollection(gs).AsGeometry()
			wantTree = model.Tree{Type: geom.TypeGeometryCollection}
		}
	}) {
		return
	}
	wantTree.CT = want
	var desc []string
	for _, t := range ts {
		wantTree.Kids = append(wantTree.Kids, forceTree(t, want))
		desc = append(desc, t.String())
	}
	k.In("constructor", name)
	k.In("members", fmt.Sprint(desc))
	k.Nontrivial(name + fmt.Sprint(desc))
	got, issues := treeOf(res)
	k.Check("constructor-reduce", model.Equal(got, wantTree) && len(issues) == 0, "%s of members with coordinate types %v: %s %v\n got %s", name, ctypes(ts), model.Diff(got, wantTree), issues, got)
}

func ctypes(ts []model.Tree) []geom.CoordinatesType {
	var o []geom.CoordinatesType
	for _, t := range ts {
		o = append(o, t.CT)
	}
	return o
}

func runAll(c *run.Ctx) {
	idx := 0
	for _, typ := range model.Types {
		for _, ct := range model.CTypes {
			idx++
			c.Case("typed-empty", idx, func(k *run.K) { opsOn(k, model.Tree{Type: typ, CT: ct}) })
		}
	}
	for i := 0; i < c.N(15000, 150000); i++ {
		c.Case("tree", i, func(k *run.K) {
			typ := model.Types[k.Rng.Intn(7)]
			ct := model.CTypes[k.Rng.Intn(4)]
			t := model.RandTree(k.Rng, typ, ct, 3, model.ValueOpts{Simple: true})
			t = model.SetZM(k.Rng, t, ct, model.ValueOpts{}, true)
			opsOn(k, t)
		})
	}
	for i := 0; i < c.N(9000, 100000); i++ {
		c.Case("valid", i, func(k *run.K) {
			g := &gen.G{R: k.Rng, Cfg: gen.NewCfg(k.Rng, gen.DSmall)}
			x := g.Rich(2)
			t, _ := model.FromGeom(x)
			t = model.SetZM(k.Rng, t, t.CT, model.ValueOpts{}, true)
			opsOn(k, t)
		})
	}
	for i := 0; i < c.N(12000, 100000); i++ {
		c.Case("mixed", i, mixed)
	}
}

// concreteCalls: the operations of the statement that exist both on Geometry and on the concrete types.
var concreteCalls = []shared.Call{
	{Method: "CoordinatesType"}, {Method: "Type"},
	{Method: "ForceCoordinatesType", Args: []any{geom.DimXY}}, {Method: "ForceCoordinatesType", Args: []any{geom.DimXYZ}},
	{Method: "ForceCoordinatesType", Args: []any{geom.DimXYM}}, {Method: "ForceCoordinatesType", Args: []any{geom.DimXYZM}}, {Method: "Force2D"},
	{Method: "TransformXY", Args: []any{func(p geom.XY) geom.XY { return geom.XY{X: p.X + 1, Y: 2 * p.Y} }}},
	{Method: "DumpCoordinates"}, {Method: "Dump"}, {Method: "AsMultiPoint"}, {Method: "AsMultiLineString"}, {Method: "AsMultiPolygon"},
	{Method: "Densify", Args: []any{0.7}}, {Method: "SnapToGrid", Args: []any{1}}, {Method: "Reverse"}, {Method: "ForceCW"}, {Method: "ForceCCW"},
	{Method: "Centroid"}, {Method: "ConvexHull"}, {Method: "PointOnSurface"}, {Method: "Envelope"},
}
