// Package c19 monitors the carto projections: inverse round trip and the
// local character (equal-area / conformal / equidistant / true scale) by
// central-difference Jacobians.
package c19

import (
	"fmt"
	"math"

	"github.com/peterstace/simplefeatures/carto"
	"github.com/peterstace/simplefeatures/geom"

	"verif/run"
)

func init() {
	run.Register(&run.Property{
		ID:    "C19",
		Title: "Map projections invert exactly and have the geometric character they claim",
		Rule: "cases = (projection, configuration): centres/origins on a graticule of the sphere, standard-parallel pairs in both hemispheres and orders (|lat1-lat2|>=5, |lat1+lat2|>=10), radii 1 and WGS84 mean, zoom 0..30; each case evaluates Forward/Reverse and central-difference Jacobians (h=1e-6 deg) at graticule points and PRNG points of the projection's one-to-one domain plus the centre/origin itself. " +
			"non-trivial = configuration differs from the constructor default; distinct by configuration string",
		Assumptions: []string{
			"all comparisons are written so that NaN fails them",
			"domain per quantifier: |lat|<=85; azimuthal within 60 deg of arc of the centre; conics |n(lon-lon0)|<89 deg; lon-lon0 in (-180,180)",
			"Jacobian tolerances 1e-5 relative (finite-difference error is ~1e-9)",
		},
		MinNontrivial:    30,
		RequiredMonitors: []string{"finite", "inverse", "inverse-centre", "equal-area", "conformal", "equidistant", "true-scale", "webmercator-square"},
		Run:              runAll,
	})
}

type proj interface {
	Forward(geom.XY) geom.XY
	Reverse(geom.XY) geom.XY
}

const deg = math.Pi / 180

func fin(v geom.XY) bool {
	return !math.IsNaN(v.X) && !math.IsInf(v.X, 0) && !math.IsNaN(v.Y) && !math.IsInf(v.Y, 0)
}

func lonDiff(a, b float64) float64 {
	d := math.Mod(a-b, 360)
	if d > 180 {
		d -= 360
	}
	if d < -180 {
		d += 360
	}
	return math.Abs(d)
}

func arcDeg(a, b geom.XY) float64 { // great-circle distance in degrees
	s := math.Sin(a.Y*deg)*math.Sin(b.Y*deg) + math.Cos(a.Y*deg)*math.Cos(b.Y*deg)*math.Cos((a.X-b.X)*deg)
	if s > 1 {
		s = 1
	}
	if s < -1 {
		s = -1
	}
	return math.Acos(s) / deg
}

// arcRad: numerically stable great-circle distance (haversine-free vector form).
func arcRad(a, b geom.XY) float64 {
	v := func(p geom.XY) [3]float64 {
		return [3]float64{math.Cos(p.Y*deg) * math.Cos(p.X*deg), math.Cos(p.Y*deg) * math.Sin(p.X*deg), math.Sin(p.Y * deg)}
	}
	u, w := v(a), v(b)
	cx := [3]float64{u[1]*w[2] - u[2]*w[1], u[2]*w[0] - u[0]*w[2], u[0]*w[1] - u[1]*w[0]}
	return math.Atan2(math.Sqrt(cx[0]*cx[0]+cx[1]*cx[1]+cx[2]*cx[2]), u[0]*w[0]+u[1]*w[1]+u[2]*w[2])
}

type cfg struct {
	name    string
	p       proj
	R       float64
	centre  geom.XY // centre / origin (lon0, lat0)
	hasLat0 bool
	par     [2]float64
	conic   int // 0 none, 1 albers, 2 lambert conformal, 3 equidistant conic
	azim    bool
	kind    string
	desc    string
	dflt    bool
}

func coneN(c cfg) float64 {
	p1, p2 := c.par[0]*deg, c.par[1]*deg
	switch c.conic {
	case 1:
		return (math.Sin(p1) + math.Sin(p2)) / 2
	case 2:
		return math.Log(math.Cos(p1)/math.Cos(p2)) / math.Log(math.Tan(math.Pi/4+p2/2)/math.Tan(math.Pi/4+p1/2))
	case 3:
		return (math.Cos(p1) - math.Cos(p2)) / (p2 - p1)
	}
	return 0
}

func inDomain(c cfg, p geom.XY) bool {
	if math.Abs(p.Y) > 85 {
		return false
	}
	d := p.X - c.centre.X
	if d <= -179.5 || d >= 179.5 {
		return false
	}
	if c.azim && arcDeg(c.centre, p) > 60 {
		return false
	}
	if c.conic != 0 && math.Abs(coneN(c)*d) >= 89 {
		return false
	}
	return true
}

// jac returns the Jacobian columns d(x,y)/dλ and d(x,y)/dφ per radian.
func jac(p proj, q geom.XY) (jl, jp geom.XY, ok bool) {
	const h = 1e-6
	a, b := p.Forward(geom.XY{X: q.X + h, Y: q.Y}), p.Forward(geom.XY{X: q.X - h, Y: q.Y})
	c, d := p.Forward(geom.XY{X: q.X, Y: q.Y + h}), p.Forward(geom.XY{X: q.X, Y: q.Y - h})
	if !fin(a) || !fin(b) || !fin(c) || !fin(d) {
		return jl, jp, false
	}
	s := 1 / (2 * h * deg)
	return geom.XY{X: (a.X - b.X) * s, Y: (a.Y - b.Y) * s}, geom.XY{X: (c.X - d.X) * s, Y: (c.Y - d.Y) * s}, true
}

func rel(a, b float64) float64 { return math.Abs(a-b) / math.Max(math.Abs(b), 1e-300) }

func checkPoint(k *run.K, c cfg, q geom.XY, centre bool) {
	f := c.p.Forward(q)
	if !k.Check("finite", fin(f), "%s Forward(%v) = %v", c.desc, q, f) {
		return
	}
	r := c.p.Reverse(f)
	ok := fin(r) && math.Abs(r.Y-q.Y) <= 1e-9 && (lonDiff(r.X, q.X) <= 1e-9 || math.Abs(q.Y) == 90) // longitude is undefined at a pole
	mon := "inverse"
	if centre {
		mon = "inverse-centre"
	}
	class := ""
	if centre && c.azim {
		class = "azimuthal-reverse-at-centre"
	}
	k.CheckClass(mon, class, ok, "%s Reverse(Forward(%v)) = %v (forward %v)", c.desc, q, r, f)
	k.Count("point_evaluations", 1)
	if math.Abs(q.Y) > 84 {
		return
	}
	jl, jp, okj := jac(c.p, q)
	if !okj {
		k.Check("finite", false, "%s Forward not finite next to %v", c.desc, q)
		return
	}
	R := c.R
	cphi := math.Cos(q.Y * deg)
	det := jl.X*jp.Y - jl.Y*jp.X
	nl, np := math.Hypot(jl.X, jl.Y), math.Hypot(jp.X, jp.Y)
	switch c.kind {
	case "equal-area":
		k.Check("equal-area", rel(math.Abs(det), R*R*cphi) <= 1e-5, "%s at %v: |det J| = %g, want R^2 cos(lat) = %g", c.desc, q, math.Abs(det), R*R*cphi)
	case "conformal":
		dot := (jl.X*jp.X + jl.Y*jp.Y) / (nl * np)
		k.Check("conformal", math.Abs(dot) <= 1e-5 && rel(nl/cphi, np) <= 1e-5, "%s at %v: Jacobian columns not orthogonal/equal scale: cos angle %g, |J_lon|/cos(lat)=%g |J_lat|=%g", c.desc, q, dot, nl/cphi, np)
	}
	switch c.name {
	case "AzimuthalEquidistant":
		want := R * arcRad(c.centre, q)
		got := math.Hypot(f.X, f.Y)
		k.Check("equidistant", math.Abs(got-want) <= 1e-9*R, "%s: |Forward(%v)| = %.12g, R x great-circle distance = %.12g", c.desc, q, got, want)
	case "EquidistantConic", "Equirectangular":
		k.Check("equidistant", rel(np, R) <= 1e-5, "%s at %v: scale along the meridian %g, want R=%g", c.desc, q, np, R)
	case "Sinusoidal":
		k.Check("true-scale", rel(nl, R*cphi) <= 1e-5, "%s at %v: scale along the parallel %g, want R cos(lat) = %g", c.desc, q, nl, R*cphi)
	}
}

func trueScale(k *run.K, c cfg) {
	// standard parallels are true to scale
	var lats []float64
	switch c.name {
	case "AlbersEqualAreaConic", "LambertConformalConic", "EquidistantConic":
		lats = []float64{c.par[0], c.par[1]}
	case "Equirectangular":
		lats = []float64{c.par[0], -c.par[0]}
	case "LambertCylindricalEqualArea":
		lats = []float64{0}
	default:
		return
	}
	for _, lat := range lats {
		for _, dl := range []float64{0, 20, -35} {
			q := geom.XY{X: c.centre.X + dl, Y: lat}
			if !inDomain(c, q) {
				continue
			}
			jl, _, ok := jac(c.p, q)
			if !ok {
				k.Check("finite", false, "%s not finite near standard parallel %v", c.desc, q)
				continue
			}
			nl := math.Hypot(jl.X, jl.Y)
			want := c.R * math.Cos(lat*deg)
			k.Check("true-scale", rel(nl, want) <= 1e-5, "%s: scale along standard parallel %g at lon %g is %g, want R cos(lat) = %g", c.desc, lat, q.X, nl, want)
		}
	}
}

// buildVariant selects how the configuration is reached (the result must only depend on the final settings):
// bit 0: standard parallels before origin; bit 1: other values are set first and then overwritten; bit 2: a
// point is projected before the final settings are made (stale derived state).
var buildVariant int

func build(name string, R float64, centre geom.XY, par [2]float64) cfg {
	c := buildOnce(name, R, centre, par)
	return c
}

func buildOnce(name string, R float64, centre geom.XY, par [2]float64) cfg {
	c := cfg{name: name, R: R, centre: centre, par: par}
	c.desc = fmt.Sprintf("%s{R=%g centre=(%g,%g) parallels=(%g,%g)}", name, R, centre.X, centre.Y, par[0], par[1])
	switch name {
	case "AlbersEqualAreaConic":
		p := carto.NewAlbersEqualAreaConic(R)
		if buildVariant&2 != 0 {
			p.SetOrigin(geom.XY{X: centre.X/2 + 11, Y: -centre.Y/2 + 3})
			p.SetStandardParallels(par[1]/2+7, par[0]/3-11)
		}
		if buildVariant&4 != 0 {
			_ = p.Forward(geom.XY{X: centre.X + 1, Y: 0})
			_ = p.Reverse(geom.XY{X: 0.5 * R, Y: 0.25 * R})
		}
		if buildVariant&1 != 0 {
			p.SetStandardParallels(par[0], par[1])
			p.SetOrigin(centre)
		} else {
			p.SetOrigin(centre)
			p.SetStandardParallels(par[0], par[1])
		}
		c.p, c.conic, c.kind = p, 1, "equal-area"
	case "LambertConformalConic":
		p := carto.NewLambertConformalConic(R)
		if buildVariant&2 != 0 {
			p.SetOrigin(geom.XY{X: centre.X/2 + 11, Y: -centre.Y/2 + 3})
			p.SetStandardParallels(par[1]/2+7, par[0]/3-11)
		}
		if buildVariant&4 != 0 {
			_ = p.Forward(geom.XY{X: centre.X + 1, Y: 0})
			_ = p.Reverse(geom.XY{X: 0.5 * R, Y: 0.25 * R})
		}
		if buildVariant&1 != 0 {
			p.SetStandardParallels(par[0], par[1])
			p.SetOrigin(centre)
		} else {
			p.SetOrigin(centre)
			p.SetStandardParallels(par[0], par[1])
		}
		c.p, c.conic, c.kind = p, 2, "conformal"
	case "EquidistantConic":
		p := carto.NewEquidistantConic(R)
		if buildVariant&2 != 0 {
			p.SetOrigin(geom.XY{X: centre.X/2 + 11, Y: -centre.Y/2 + 3})
			p.SetStandardParallels(par[1]/2+7, par[0]/3-11)
		}
		if buildVariant&4 != 0 {
			_ = p.Forward(geom.XY{X: centre.X + 1, Y: 0})
			_ = p.Reverse(geom.XY{X: 0.5 * R, Y: 0.25 * R})
		}
		if buildVariant&1 != 0 {
			p.SetStandardParallels(par[0], par[1])
			p.SetOrigin(centre)
		} else {
			p.SetOrigin(centre)
			p.SetStandardParallels(par[0], par[1])
		}
		c.p, c.conic = p, 3
	case "AzimuthalEquidistant":
		p := carto.NewAzimuthalEquidistant(R)
		if buildVariant&2 != 0 {
			p.SetCenter(geom.XY{X: -centre.X / 2, Y: centre.Y/2 + 5})
		}
		if buildVariant&4 != 0 {
			_ = p.Forward(geom.XY{X: 3, Y: 0})
			_ = p.Reverse(geom.XY{X: 0.1 * R, Y: 0.2 * R})
		}
		p.SetCenter(centre)
		c.p, c.azim = p, true
	case "Orthographic":
		p := carto.NewOrthographic(R)
		if buildVariant&2 != 0 {
			p.SetCenter(geom.XY{X: -centre.X / 2, Y: centre.Y/2 + 5})
		}
		if buildVariant&4 != 0 {
			_ = p.Forward(geom.XY{X: 3, Y: 0})
			_ = p.Reverse(geom.XY{X: 0.1 * R, Y: 0.2 * R})
		}
		p.SetCenter(centre)
		c.p, c.azim = p, true
	case "Equirectangular":
		p := carto.NewEquirectangular(R)
		if buildVariant&2 != 0 {
			p.SetCentralMeridian(centre.X/2 - 9)
			p.SetStandardParallels(par[0]/2 + 13)
		}
		if buildVariant&4 != 0 {
			_ = p.Forward(geom.XY{X: 3, Y: 0})
		}
		if buildVariant&1 != 0 {
			p.SetStandardParallels(par[0])
			p.SetCentralMeridian(centre.X)
		} else {
			p.SetCentralMeridian(centre.X)
			p.SetStandardParallels(par[0])
		}
		c.centre.Y = 0
		c.p = p
	case "LambertCylindricalEqualArea":
		p := carto.NewLambertCylindricalEqualArea(R)
		p.SetCentralMeridian(centre.X)
		c.centre.Y = 0
		c.p, c.kind = p, "equal-area"
	case "Sinusoidal":
		p := carto.NewSinusoidal(R)
		p.SetCentralMeridian(centre.X)
		c.centre.Y = 0
		c.p, c.kind = p, "equal-area"
	}
	return c
}

var parallelPairs = [][2]float64{{30, 60}, {60, 30}, {50, 70}, {70, 50}, {10, 45}, {-30, -60}, {-60, -30}, {-18, -36}, {-36, -18}, {-10, 40}, {40, -10}, {20, -55}, {-75, -20}, {5, 80}, {15, 25}}

func runAll(c *run.Ctx) {
	step := c.N(15, 15)         // centre graticule
	gstep := float64(c.N(5, 1)) // point graticule
	nrand := c.N(200, 3000)     // random points per configuration
	radii := []float64{1, carto.WGS84EllipsoidMeanRadiusM}
	idx := 0
	runCfg := func(name string, R float64, centre geom.XY, par [2]float64) {
		idx++
		c.Case("cfg:"+name, idx, func(k *run.K) {
			buildVariant = k.Index % 8
			cf := build(name, R, centre, par)
			k.In("config", cf.desc)
			if centre.X != 0 || centre.Y != 0 || par != [2]float64{30, 60} {
				k.Nontrivial(cf.desc)
			}
			// the centre / origin itself
			checkPoint(k, cf, cf.centre, true)
			trueScale(k, cf)
			// the neighbourhood of the centre, where the inverse formulas have their removable
			// singularity: 8 directions at 1e-1 ... 1e-8 degrees
			for e := 1; e <= 8; e++ {
				d := math.Pow(10, -float64(e))
				for _, dir := range [][2]float64{{1, 0}, {-1, 0}, {0, 1}, {0, -1}, {1, 2}, {-2, 1}, {-1, -1}, {2, -1}} {
					q := geom.XY{X: cf.centre.X + dir[0]*d, Y: cf.centre.Y + dir[1]*d}
					if inDomain(cf, q) {
						checkPoint(k, cf, q, false)
						k.Count("near_centre_points", 1)
					}
				}
			}
			for lon := -180.0 + gstep/2; lon < 180; lon += gstep {
				for lat := -85.0; lat <= 85; lat += gstep {
					q := geom.XY{X: cf.centre.X + lon, Y: lat}
					if inDomain(cf, q) {
						checkPoint(k, cf, q, false)
					}
				}
			}
			for i := 0; i < nrand; i++ {
				q := geom.XY{X: cf.centre.X + (k.Rng.Float64()*359 - 179.5), Y: k.Rng.Float64()*170 - 85}
				if inDomain(cf, q) {
					checkPoint(k, cf, q, false)
				}
			}
			// points on the standard parallels and on the central meridian
			for _, lat := range []float64{par[0], par[1], 0} {
				for _, dl := range []float64{0, 1, -1, 45, -45, 100} {
					q := geom.XY{X: cf.centre.X + dl, Y: lat}
					if inDomain(cf, q) {
						checkPoint(k, cf, q, false)
					}
				}
			}
		})
	}
	for _, R := range radii {
		for lon0 := -180.0; lon0 < 180; lon0 += float64(step) * 2 {
			for lat0 := -75.0; lat0 <= 75; lat0 += float64(step) {
				for _, name := range []string{"AzimuthalEquidistant", "Orthographic"} {
					runCfg(name, R, geom.XY{X: lon0, Y: lat0}, [2]float64{})
				}
				pp := parallelPairs[(idx)%len(parallelPairs)]
				for _, name := range []string{"AlbersEqualAreaConic", "LambertConformalConic", "EquidistantConic"} {
					runCfg(name, R, geom.XY{X: lon0, Y: lat0}, pp)
				}
			}
			for _, name := range []string{"LambertCylindricalEqualArea", "Sinusoidal"} {
				runCfg(name, R, geom.XY{X: lon0}, [2]float64{})
			}
			for _, sp := range []float64{0, 35, -35, 60, 80} {
				runCfg("Equirectangular", R, geom.XY{X: lon0}, [2]float64{sp, sp})
			}
		}
		// polar aspects of the azimuthal projections (centre exactly at a pole)
		for _, lat0 := range []float64{90, -90} {
			for _, lon0 := range []float64{0, 37, -120, 180} {
				for _, name := range []string{"AzimuthalEquidistant", "Orthographic"} {
					runCfg(name, R, geom.XY{X: lon0, Y: lat0}, [2]float64{})
				}
			}
		}
		// every parallel pair at least once per conic with a fixed origin
		for _, pp := range parallelPairs {
			for _, name := range []string{"AlbersEqualAreaConic", "LambertConformalConic", "EquidistantConic"} {
				runCfg(name, R, geom.XY{X: 10, Y: 20}, pp)
				runCfg(name, R, geom.XY{X: -120, Y: -40}, pp)
			}
		}
	}
	// default-constructed projections
	for _, name := range []string{"AlbersEqualAreaConic", "AzimuthalEquidistant", "Orthographic", "LambertCylindricalEqualArea", "Sinusoidal"} {
		runCfg(name, 1, geom.XY{}, [2]float64{30, 60})
	}
	// WebMercator
	for zoom := 0; zoom <= 30; zoom++ {
		c.Case("webmercator", zoom, func(k *run.K) {
			p := carto.NewWebMercator(zoom)
			P := math.Ldexp(1, zoom)
			desc := fmt.Sprintf("WebMercator{zoom=%d}", zoom)
			k.In("config", desc)
			k.Nontrivial(desc)
			cf := cfg{name: "WebMercator", p: p, R: P / (2 * math.Pi), kind: "conformal", desc: desc}
			const maxLat = 85.0511287798066
			for _, cse := range []struct {
				q    geom.XY
				x, y float64
			}{{geom.XY{X: -180, Y: maxLat}, 0, 0}, {geom.XY{X: 180, Y: maxLat}, P, 0}, {geom.XY{X: -180, Y: -maxLat}, 0, P}, {geom.XY{X: 180, Y: -maxLat}, P, P}, {geom.XY{X: 0, Y: 0}, P / 2, P / 2}} {
				f := p.Forward(cse.q)
				k.Check("webmercator-square", fin(f) && math.Abs(f.X-cse.x) <= 1e-9*P && math.Abs(f.Y-cse.y) <= 1e-9*P, "%s Forward(%v) = %v, want (%g,%g)", desc, cse.q, f, cse.x, cse.y)
			}
			n, s := p.Forward(geom.XY{X: 0, Y: 10}), p.Forward(geom.XY{X: 0, Y: -10})
			k.Check("webmercator-square", n.Y < s.Y, "%s: y must increase southward: north %v south %v", desc, n, s)
			checkPoint(k, cf, geom.XY{}, true)
			for lon := -175.0; lon < 180; lon += gstep {
				for lat := -85.0; lat <= 85; lat += gstep {
					q := geom.XY{X: lon, Y: lat}
					checkPoint(k, cf, q, false)
					f := p.Forward(q)
					k.Check("webmercator-square", f.X >= 0 && f.X <= P && f.Y >= 0 && f.Y <= P, "%s Forward(%v) = %v outside [0,2^zoom]^2", desc, q, f)
				}
			}
			for i := 0; i < nrand; i++ {
				checkPoint(k, cf, geom.XY{X: k.Rng.Float64()*360 - 180, Y: k.Rng.Float64()*170 - 85}, false)
			}
		})
	}
}
