// Package c08 monitors the decoders on untrusted input inside sacrificial
// workers with a memory ceiling: panics, process death, allocation volume,
// validity of what is returned, and re-encodability.
package c08

import (
	"encoding/binary"
	"encoding/hex"
	"encoding/json"
	"fmt"
	"os"
	"os/exec"
	"path/filepath"
	"regexp"
	"runtime/metrics"
	"strings"
	"syscall"

	"github.com/peterstace/simplefeatures/geom"

	"verif/codec"
	"verif/exact"
	"verif/gen"
	"verif/model"
	"verif/run"
)

func init() {
	run.Register(&run.Property{
		ID:    "C08",
		Level: "fault_enumeration",
		Title: "Decoders are total on untrusted input: error or valid geometry, never a crash",
		Rule: "[added in rounds 9-11: feature:geojson: Feature/FeatureCollection documents over every subset and order of standard, misspelt and foreign members] cases = (corpus member, corruption class) over a corpus of valid encodings of every type/coordinate type/emptiness in WKB, TWKB, WKT and GeoJSON: every truncation; every byte value at header/type/count/flag positions and boundary values elsewhere (field maps from the independent codecs); every 4-byte count overwritten with {0,1,2^31-1,2^31,2^32-1} in both byte orders; every varint overwritten with 2^k, 2^64-1 and an over-long varint; splices; PRNG byte strings up to 64 KiB; token-mutated and deeply nested WKT/GeoJSON. " +
			"Each input goes through every decoder entry point of its format in a worker with an address-space limit; the driver attributes worker deaths to the journaled input. non-trivial = every corrupted input; distinct by (format, input bytes) hash per case",
		Assumptions: []string{
			"allocation bound per call: delta of cumulative heap allocation <= 64 MiB + 8192*len(input) (fixed in DESIGN.md before the check existed; legitimate decoders measured at 2-60 bytes per input byte)",
			"a decoder may return any error; time is not judged (watchdog => inconclusive)",
			"worker address space limited to 8 GiB (RLIMIT_AS) so that runaway reservations abort the worker instead of the machine",
		},
		MinNontrivial:    300,
		CaseCPUSeconds:   1200, // one case = all corruptions of one corpus member (10^3-10^4 inputs)
		DeathIsViolation: true,
		Variants:         []run.Variant{{Name: "thorough-asan", BuildFlags: []string{"-asan"}}},
		RequiredMonitors: []string{"nopanic-wkb", "nopanic-twkb", "nopanic-wkt", "nopanic-geojson", "alloc-wkb", "alloc-twkb", "alloc-wkt", "alloc-geojson", "validated", "reencode"},
		Run:              runAll,
	})
}

var allocSample = []metrics.Sample{{Name: "/gc/heap/allocs:bytes"}}

func allocBytes() uint64 {
	metrics.Read(allocSample)
	return allocSample[0].Value.Uint64()
}

const allocBase = 64 << 20

// call runs one decoder call under the monitors.
func call(k *run.K, format, entry string, input []byte, validated bool, f func() (geom.Geometry, bool, error)) {
	before := allocBytes()
	var g geom.Geometry
	var have bool
	var err error
	panicked := k.Lib("nopanic-"+format, func() { g, have, err = f() })
	after := allocBytes()
	k.Count("decoder_calls", 1)
	if panicked {
		return
	}
	k.Check("nopanic-"+format, true, "")
	delta := after - before
	bound := uint64(allocBase + 8192*len(input))
	ratio := float64(delta) / float64(len(input)+1)
	k.Max("max_alloc_bytes_per_input_byte_"+format, ratio)
	k.CheckClass("alloc-"+format, "", delta <= bound, "%s allocated %d bytes for a %d-byte input (bound %d): %s", entry, delta, len(input), bound, clipIn(input, format))
	if err != nil || !have {
		k.Count("errors_returned", 1)
		return
	}
	k.Count("geometries_returned", 1)
	if validated {
		var verr error
		if !k.Lib("validated", func() { verr = g.Validate() }) {
			k.Check("validated", verr == nil, "%s returned a geometry that fails Validate: %v (%s)", entry, verr, clipIn(input, format))
		}
	}
	k.Lib("reencode", func() {
		_ = g.AsText()
		_ = g.AsBinary()
		_, _ = g.MarshalJSON()
		_, _ = geom.MarshalTWKB(g, 3)
		_ = g.IsEmpty()
		_ = g.Envelope()
	})
	k.Check("reencode", true, "")
}

func clipIn(b []byte, format string) string {
	if format == "wkt" || format == "geojson" {
		s := string(b)
		if len(s) > 300 {
			s = s[:300] + "…"
		}
		return s
	}
	if len(b) > 200 {
		return hex.EncodeToString(b[:200]) + "…"
	}
	return hex.EncodeToString(b)
}

func wrapG(g geom.Geometry, err error) (geom.Geometry, bool, error) { return g, err == nil, err }

func feed(k *run.K, format string, in []byte) {
	k.Mark(format + " " + clipHex(in))
	k.Context = format + " input " + clipIn(in, format)
	k.Count("inputs", 1)
	k.Count("inputs_"+format, 1)
	switch format {
	case "wkb":
		call(k, format, "UnmarshalWKB", in, true, func() (geom.Geometry, bool, error) { return wrapG(geom.UnmarshalWKB(in)) })
		call(k, format, "UnmarshalWKB(NoValidate)", in, false, func() (geom.Geometry, bool, error) { return wrapG(geom.UnmarshalWKB(in, geom.NoValidate{})) })
		call(k, format, "Geometry.Scan", in, true, func() (geom.Geometry, bool, error) { var g geom.Geometry; e := g.Scan(in); return g, e == nil, e })
		call(k, format, "NullGeometry.Scan", in, true, func() (geom.Geometry, bool, error) {
			var g geom.NullGeometry
			e := g.Scan(in)
			return g.Geometry, e == nil, e
		})
		// concrete adapters
		call(k, format, "Point.Scan", in, true, func() (geom.Geometry, bool, error) {
			var v geom.Point
			e := v.Scan(in)
			return v.AsGeometry(), e == nil, e
		})
		call(k, format, "LineString.Scan", in, true, func() (geom.Geometry, bool, error) {
			var v geom.LineString
			e := v.Scan(in)
			return v.AsGeometry(), e == nil, e
		})
		call(k, format, "Polygon.Scan", in, true, func() (geom.Geometry, bool, error) {
			var v geom.Polygon
			e := v.Scan(in)
			return v.AsGeometry(), e == nil, e
		})
		call(k, format, "MultiPoint.Scan", in, true, func() (geom.Geometry, bool, error) {
			var v geom.MultiPoint
			e := v.Scan(in)
			return v.AsGeometry(), e == nil, e
		})
		call(k, format, "MultiLineString.Scan", in, true, func() (geom.Geometry, bool, error) {
			var v geom.MultiLineString
			e := v.Scan(in)
			return v.AsGeometry(), e == nil, e
		})
		call(k, format, "MultiPolygon.Scan", in, true, func() (geom.Geometry, bool, error) {
			var v geom.MultiPolygon
			e := v.Scan(in)
			return v.AsGeometry(), e == nil, e
		})
		call(k, format, "GeometryCollection.Scan", in, true, func() (geom.Geometry, bool, error) {
			var v geom.GeometryCollection
			e := v.Scan(in)
			return v.AsGeometry(), e == nil, e
		})
	case "twkb":
		call(k, format, "UnmarshalTWKB", in, true, func() (geom.Geometry, bool, error) { return wrapG(geom.UnmarshalTWKB(in)) })
		call(k, format, "UnmarshalTWKB(NoValidate)", in, false, func() (geom.Geometry, bool, error) { return wrapG(geom.UnmarshalTWKB(in, geom.NoValidate{})) })
		call(k, format, "UnmarshalTWKBEnvelope", in, false, func() (geom.Geometry, bool, error) {
			_, _, e := geom.UnmarshalTWKBEnvelope(in)
			return geom.Geometry{}, false, e
		})
		call(k, format, "UnmarshalTWKBSize", in, false, func() (geom.Geometry, bool, error) {
			_, _, e := geom.UnmarshalTWKBSize(in)
			return geom.Geometry{}, false, e
		})
		call(k, format, "UnmarshalTWKBIDList", in, false, func() (geom.Geometry, bool, error) {
			_, _, e := geom.UnmarshalTWKBIDList(in)
			return geom.Geometry{}, false, e
		})
	case "wkt":
		s := string(in)
		call(k, format, "UnmarshalWKT", in, true, func() (geom.Geometry, bool, error) { return wrapG(geom.UnmarshalWKT(s)) })
		call(k, format, "UnmarshalWKT(NoValidate)", in, false, func() (geom.Geometry, bool, error) { return wrapG(geom.UnmarshalWKT(s, geom.NoValidate{})) })
	case "geojson":
		call(k, format, "UnmarshalGeoJSON", in, true, func() (geom.Geometry, bool, error) { return wrapG(geom.UnmarshalGeoJSON(in)) })
		call(k, format, "UnmarshalGeoJSON(NoValidate)", in, false, func() (geom.Geometry, bool, error) { return wrapG(geom.UnmarshalGeoJSON(in, geom.NoValidate{})) })
		call(k, format, "json.Unmarshal(Geometry)", in, true, func() (geom.Geometry, bool, error) {
			var g geom.Geometry
			e := json.Unmarshal(in, &g)
			return g, e == nil, e
		})
		call(k, format, "json.Unmarshal(Point)", in, true, func() (geom.Geometry, bool, error) {
			var v geom.Point
			e := json.Unmarshal(in, &v)
			return v.AsGeometry(), e == nil, e
		})
		call(k, format, "json.Unmarshal(LineString)", in, true, func() (geom.Geometry, bool, error) {
			var v geom.LineString
			e := json.Unmarshal(in, &v)
			return v.AsGeometry(), e == nil, e
		})
		call(k, format, "json.Unmarshal(Polygon)", in, true, func() (geom.Geometry, bool, error) {
			var v geom.Polygon
			e := json.Unmarshal(in, &v)
			return v.AsGeometry(), e == nil, e
		})
		call(k, format, "json.Unmarshal(MultiPoint)", in, true, func() (geom.Geometry, bool, error) {
			var v geom.MultiPoint
			e := json.Unmarshal(in, &v)
			return v.AsGeometry(), e == nil, e
		})
		call(k, format, "json.Unmarshal(MultiLineString)", in, true, func() (geom.Geometry, bool, error) {
			var v geom.MultiLineString
			e := json.Unmarshal(in, &v)
			return v.AsGeometry(), e == nil, e
		})
		call(k, format, "json.Unmarshal(MultiPolygon)", in, true, func() (geom.Geometry, bool, error) {
			var v geom.MultiPolygon
			e := json.Unmarshal(in, &v)
			return v.AsGeometry(), e == nil, e
		})
		call(k, format, "json.Unmarshal(GeometryCollection)", in, true, func() (geom.Geometry, bool, error) {
			var v geom.GeometryCollection
			e := json.Unmarshal(in, &v)
			return v.AsGeometry(), e == nil, e
		})
		call(k, format, "json.Unmarshal(GeoJSONFeature)", in, true, func() (geom.Geometry, bool, error) {
			var v geom.GeoJSONFeature
			e := json.Unmarshal(in, &v)
			return v.Geometry, e == nil, e
		})
		call(k, format, "json.Unmarshal(GeoJSONFeatureCollection)", in, false, func() (geom.Geometry, bool, error) {
			var v geom.GeoJSONFeatureCollection
			e := json.Unmarshal(in, &v)
			return geom.Geometry{}, false, e
		})
	}
}

func clipHex(b []byte) string {
	if len(b) > 4096 {
		return hex.EncodeToString(b[:4096]) + fmt.Sprintf("…(+%d bytes)", len(b)-4096)
	}
	return hex.EncodeToString(b)
}

// ---------- corpus ----------

type entry struct {
	format string
	data   []byte
	fields []codec.Field
}

func corpusTree(r *run.Rng, i int) model.Tree {
	typ := model.Types[i%7]
	ct := model.CTypes[(i/7)%4]
	if i%5 == 0 {
		// valid lattice geometry with Z/M
		g := &gen.G{R: r, Cfg: gen.NewCfg(r, gen.DSmall)}
		x := g.Typed(typ, 1).ForceCoordinatesType(ct)
		if r.Bool() {
			x = gen.WithEmpties(r, x, 1)
		}
		t, _ := model.FromGeom(x)
		return t
	}
	return model.RandTree(r, typ, ct, 2, model.ValueOpts{Simple: true})
}

func corpusEntry(r *run.Rng, format string, i int) (entry, bool) {
	t := corpusTree(r, i)
	g := model.ToGeom(t)
	switch format {
	case "wkb":
		w := &codec.WKBWriter{Order: func(e int) bool { return (i/3+e)%3 == 0 }}
		w.Write(t)
		return entry{format, w.Buf, w.Fields}, true
	case "twkb":
		if !exact.ValidGeom(g).OK {
			// TWKB of arbitrary trees is fine too, but keep the encoder inside its contract
			g = g.Force2D()
		}
		opts := []geom.TWKBWriterOption{}
		if i%2 == 0 {
			opts = append(opts, geom.TWKBSizeHeader())
		}
		if i%3 == 0 {
			opts = append(opts, geom.TWKBBoundingBoxHeader())
		}
		if n, ok := members(t); ok && n > 0 && t.HasOrdinate() && i%4 == 0 && !hasEmptyPoint(t) {
			ids := make([]int64, n)
			for j := range ids {
				ids[j] = int64(j * 100)
			}
			opts = append(opts, geom.TWKBIDList(ids))
		}
		b, err := geom.MarshalTWKB(g, i%4, opts...)
		if err != nil {
			return entry{}, false
		}
		tw, rerr := codec.ReadTWKB(b)
		if rerr != nil {
			return entry{format, b, nil}, true
		}
		return entry{format, b, tw.Fields}, true
	case "wkt":
		return entry{format, []byte(g.AsText()), nil}, true
	default:
		b, err := g.MarshalJSON()
		if err != nil {
			return entry{}, false
		}
		return entry{format, b, nil}, true
	}
}

func members(t model.Tree) (int, bool) {
	switch t.Type {
	case geom.TypeMultiPoint, geom.TypeMultiLineString, geom.TypeMultiPolygon, geom.TypeGeometryCollection:
		return len(t.Kids), true
	}
	return 0, false
}

func hasEmptyPoint(t model.Tree) bool {
	if t.Type == geom.TypeMultiPoint {
		for _, k := range t.Kids {
			if len(k.Coords) == 0 {
				return true
			}
		}
	}
	return false
}

// ---------- corruption classes ----------

func truncations(k *run.K, e entry) {
	for n := 0; n < len(e.data); n++ {
		feed(k, e.format, e.data[:n])
	}
	k.Count("class_truncation", int64(len(e.data)))
}

func substitutions(k *run.K, e entry) {
	header := map[int]bool{}
	for _, f := range e.fields {
		switch f.Kind {
		case "byte-order", "type-code", "count", "type-precision", "metadata", "extended-precision", "varint-count", "varint-size", "varint-id":
			for j := 0; j < f.Width; j++ {
				header[f.Off+j] = true
			}
		}
	}
	buf := make([]byte, len(e.data))
	n := 0
	for i := range e.data {
		vals := []int{0, 1, 0x7f, 0x80, 0xff}
		if header[i] || (e.fields == nil && i < 6) {
			vals = vals[:0]
			for v := 0; v < 256; v++ {
				vals = append(vals, v)
			}
		}
		for _, v := range vals {
			if byte(v) == e.data[i] {
				continue
			}
			copy(buf, e.data)
			buf[i] = byte(v)
			feed(k, e.format, buf)
			n++
		}
	}
	k.Count("class_substitution", int64(n))
}

func counts32(k *run.K, e entry) {
	n := 0
	buf := make([]byte, len(e.data))
	for _, f := range e.fields {
		if f.Kind != "count" && f.Kind != "type-code" {
			continue
		}
		for _, v := range []uint32{0, 1, 1<<31 - 1, 1 << 31, 1<<32 - 1, 1 << 28, 1 << 24, 0x0fffffff} {
			for _, be := range []bool{false, true} {
				copy(buf, e.data)
				if be {
					binary.BigEndian.PutUint32(buf[f.Off:], v)
				} else {
					binary.LittleEndian.PutUint32(buf[f.Off:], v)
				}
				feed(k, e.format, buf)
				n++
			}
		}
	}
	k.Count("class_count32", int64(n))
}

func varints(k *run.K, e entry) {
	n := 0
	for _, f := range e.fields {
		if !strings.HasPrefix(f.Kind, "varint") {
			continue
		}
		var vals []uint64
		for s := uint(0); s < 64; s++ {
			vals = append(vals, 1<<s)
		}
		vals = append(vals, 1<<64-1, 1<<63-1, 1<<62+1)
		emit := func(enc []byte) {
			buf := append(append(append([]byte(nil), e.data[:f.Off]...), enc...), e.data[f.Off+f.Width:]...)
			feed(k, e.format, buf)
			n++
		}
		for _, v := range vals {
			var tmp [binary.MaxVarintLen64]byte
			m := binary.PutUvarint(tmp[:], v)
			emit(tmp[:m])
		}
		emit([]byte{0x80, 0x80, 0x80, 0x80, 0x80, 0x80, 0x80, 0x80, 0x80, 0x80, 0x01}) // over-long (11 bytes)
		emit([]byte{0xff, 0xff, 0xff, 0xff, 0xff, 0xff, 0xff, 0xff, 0xff, 0x7f})       // overflow
		emit([]byte{0x80})                                                             // dangling continuation
	}
	k.Count("class_varint", int64(n))
}

// semanticMutations feeds well-formed encodings of trees that the format can spell but a geometry cannot
// be: one member subtree re-typed to another coordinate type (payload re-strided to match, so every length
// field stays consistent), or replaced by a member of a type its parent does not admit. WKB (mixed byte
// order) and WKT.
func semanticMutations(k *run.K, t model.Tree, i, rounds int) {
	var paths [][]int
	var walk func(n model.Tree, path []int)
	walk = func(n model.Tree, path []int) {
		if len(path) > 0 {
			paths = append(paths, append([]int(nil), path...))
		}
		if n.Type == geom.TypePolygon || n.Type == geom.TypeLineString || n.Type == geom.TypePoint {
			return
		}
		for j, c := range n.Kids {
			walk(c, append(path, j))
		}
	}
	walk(t, nil)
	if len(paths) == 0 {
		return
	}
	var replace func(n model.Tree, path []int, f func(model.Tree) model.Tree) model.Tree
	replace = func(n model.Tree, path []int, f func(model.Tree) model.Tree) model.Tree {
		if len(path) == 0 {
			return f(n)
		}
		if path[0] >= len(n.Kids) { // an earlier replacement removed this position
			return n
		}
		out := n
		out.Kids = append([]model.Tree(nil), n.Kids...)
		out.Kids[path[0]] = replace(n.Kids[path[0]], path[1:], f)
		return out
	}
	n := 0
	for r := 0; r < rounds; r++ {
		m := t
		for c := k.Rng.Range(1, 2); c > 0; c-- {
			path := paths[k.Rng.Intn(len(paths))]
			m = replace(m, path, func(sub model.Tree) model.Tree {
				if k.Rng.Chance(2, 3) {
					ct := model.CTypes[k.Rng.Intn(4)]
					return model.SetZM(k.Rng, sub, ct, model.ValueOpts{Simple: true}, true)
				}
				return model.RandTree(k.Rng, model.Types[k.Rng.Intn(7)], model.CTypes[k.Rng.Intn(4)], 1, model.ValueOpts{Simple: true})
			})
		}
		w := &codec.WKBWriter{Order: func(e int) bool { return (i+r+e)%3 == 0 }}
		w.Write(m)
		feed(k, "wkb", w.Buf)
		feed(k, "wkt", []byte(codec.Spelling{R: k.Rng}.Print(m)))
		n += 2
	}
	k.Count("class_semantic", int64(n))
}

var wktTok = regexp.MustCompile(`[A-Za-z]+|[-+]?[0-9]*\.?[0-9]+(?:[eE][-+]?[0-9]+)?|[(),]`)
var jsonTok = regexp.MustCompile(`"(?:[^"\\]|\\.)*"|-?[0-9]+(?:\.[0-9]+)?(?:[eE][-+]?[0-9]+)?|true|false|null|[\[\]{},:]`)

func tokenMutations(k *run.K, e entry, rounds int) {
	re := wktTok
	sep := " "
	if e.format == "geojson" {
		re, sep = jsonTok, ""
	}
	toks := re.FindAllString(string(e.data), -1)
	if len(toks) == 0 {
		return
	}
	nasty := []string{"NaN", "Inf", "-Inf", "1e999", "-1e999", "0x1p-2", strings.Repeat("9", 400), "1e-999", "-", "+", ".", "1.", ".5", "1e", "EMPTY", "Z", "ZM", "(", ")", ",", "POINT", "null", "[]", "{}", "\"\"", "[[[[[[[[", "-0", "00", "1_0"}
	n := 0
	for i := 0; i < rounds; i++ {
		m := append([]string(nil), toks...)
		for c := k.Rng.Range(1, 3); c > 0; c-- {
			j := k.Rng.Intn(len(m))
			switch k.Rng.Intn(5) {
			case 0: // delete
				m = append(m[:j], m[j+1:]...)
			case 1: // duplicate
				m = append(m[:j+1], m[j:]...)
			case 2: // swap
				l := k.Rng.Intn(len(m))
				m[j], m[l] = m[l], m[j]
			case 3: // nasty literal
				m[j] = nasty[k.Rng.Intn(len(nasty))]
			case 4: // replace with a token from elsewhere
				m[j] = toks[k.Rng.Intn(len(toks))]
			}
			if len(m) == 0 {
				break
			}
		}
		feed(k, e.format, []byte(strings.Join(m, sep)))
		n++
	}
	k.Count("class_token_mutation", int64(n))
}

// featureDocs wraps a geometry document in Feature and FeatureCollection documents built from every
// subset and order of the top-level members a Feature may or may not have (type, geometry, properties,
// id, bbox, foreign and misspelt members, duplicates, null/wrongly typed values), and feeds them - and
// token mutations of them - to every GeoJSON entry point.
func featureDocs(k *run.K, e entry, rounds int) {
	geomDoc := string(e.data)
	vals := map[string][]string{
		"type":       {`"Feature"`, `"Feature"`, `"Feature"`, `"feature"`, `"FeatureCollection"`, `"Point"`, `null`, `1`, `""`},
		"geometry":   {geomDoc, geomDoc, geomDoc, `null`, `{}`, `[]`, `"x"`, `{"type":"Point"}`, `{"type":"Point","coordinates":[1,2]}`},
		"properties": {`{}`, `null`, `{"a":1}`, `[]`, `"p"`, `{"a":{"b":[1,2,{"c":null}]}}`},
		"id":         {`1`, `"id"`, `null`, `{}`, `1.5`, `[1]`},
		"bbox":       {`[1,2,1,2]`, `null`, `[]`, `"b"`},
		"propertie":  {`{}`, `1`},
		"Type":       {`"Feature"`},
		"geometries": {`[]`, `[` + geomDoc + `]`},
		"features":   {`[]`, `null`},
		"foreign":    {`1`, `null`, `{"type":"Feature"}`, `[[[]]]`},
		"":           {`0`},
	}
	names := []string{"type", "geometry", "properties", "id", "bbox", "propertie", "Type", "geometries", "features", "foreign", ""}
	n := 0
	mkFeature := func() string {
		var parts []string
		cnt := k.Rng.Range(0, 5)
		if k.Rng.Intn(3) > 0 { // usually a real feature core first, then 0..3 more members
			parts = append(parts, `"type":`+vals["type"][k.Rng.Intn(3)], `"geometry":`+vals["geometry"][k.Rng.Intn(4)])
			cnt = k.Rng.Range(0, 3)
		}
		for ; cnt > 0; cnt-- {
			nm := names[k.Rng.Intn(len(names))]
			vs := vals[nm]
			parts = append(parts, fmt.Sprintf("%q:%s", nm, vs[k.Rng.Intn(len(vs))]))
		}
		sh := make([]string, len(parts))
		for a, b := range k.Rng.Perm(len(parts)) {
			sh[a] = parts[b]
		}
		return "{" + strings.Join(sh, ",") + "}"
	}
	for i := 0; i < rounds; i++ {
		doc := mkFeature()
		feed(k, "geojson", []byte(doc))
		n++
		if i%3 == 0 {
			var fs []string
			for c := k.Rng.Range(0, 3); c > 0; c-- {
				fs = append(fs, mkFeature())
			}
			extra := ""
			if k.Rng.Intn(3) == 0 {
				extra = `,"bbox":[0,0,1,1]`
			} else if k.Rng.Intn(3) == 0 {
				extra = `,"foreign":{"x":[1]}`
			}
			order := k.Rng.Intn(3)
			var fc string
			switch order {
			case 0:
				fc = `{"type":"FeatureCollection","features":[` + strings.Join(fs, ",") + `]` + extra + `}`
			case 1:
				fc = `{"features":[` + strings.Join(fs, ",") + `],"type":"FeatureCollection"` + extra + `}`
			default:
				fc = `{"features":[` + strings.Join(fs, ",") + `]` + extra + `}`
			}
			feed(k, "geojson", []byte(fc))
			n++
			if i%12 == 0 {
				tokenMutations(k, entry{format: "geojson", data: []byte(fc)}, 6)
			}
		}
		if i%6 == 0 {
			tokenMutations(k, entry{format: "geojson", data: []byte(doc)}, 4)
		}
	}
	k.Count("class_feature_document", int64(n))
}

func nested(k *run.K, format string, depth int) {
	var s string
	switch format {
	case "wkt":
		s = strings.Repeat("GEOMETRYCOLLECTION(", depth) + "POINT(1 2)" + strings.Repeat(")", depth)
	default:
		s = strings.Repeat(`{"type":"GeometryCollection","geometries":[`, depth) + `{"type":"Point","coordinates":[1,2]}` + strings.Repeat("]}", depth)
	}
	feed(k, format, []byte(s))
	feed(k, format, []byte(s[:len(s)/2]))
	if format == "wkt" {
		feed(k, format, []byte(strings.Repeat("(", depth)))
		feed(k, format, []byte("POLYGON"+strings.Repeat("(", depth)+"0 0"+strings.Repeat(")", depth)))
	} else {
		feed(k, format, []byte(`{"type":"Polygon","coordinates":`+strings.Repeat("[", depth)+strings.Repeat("]", depth)+"}"))
		feed(k, format, []byte(strings.Repeat("[", depth)))
	}
	k.Count("class_nesting", 4)
}

func limitMemory() {
	var lim syscall.Rlimit
	lim.Cur, lim.Max = 8<<30, 8<<30
	_ = syscall.Setrlimit(syscall.RLIMIT_AS, &lim)
}

var formats = []string{"wkb", "twkb", "wkt", "geojson"}

func runAll(c *run.Ctx) {
	if c.Variant == "" {
		limitMemory()
	}
	ncorp := c.N(56, 560)
	if c.Variant != "" {
		ncorp = 84
	}
	for _, f := range formats {
		f := f
		for i := 0; i < ncorp; i++ {
			i := i
			mk := func(k *run.K) (entry, bool) {
				e, ok := corpusEntry(run.NewRng(c.Seed, "corpus", f, fmt.Sprint(i)), f, i)
				if ok {
					k.In("format", f)
					k.In("corpus_member", e.data)
					k.Nontrivial(f + string(e.data) + k.Stream)
				}
				return e, ok
			}
			c.Case("trunc:"+f, i, func(k *run.K) {
				if e, ok := mk(k); ok {
					feed(k, f, e.data) // the valid encoding itself
					truncations(k, e)
				}
			})
			c.Case("subst:"+f, i, func(k *run.K) {
				if e, ok := mk(k); ok {
					substitutions(k, e)
				}
			})
			if f == "wkb" {
				c.Case("count32:"+f, i, func(k *run.K) {
					if e, ok := mk(k); ok {
						counts32(k, e)
					}
				})
			}
			if f == "wkb" {
				c.Case("semantic:"+f, i, func(k *run.K) {
					t := corpusTree(run.NewRng(c.Seed, "corpus", f, fmt.Sprint(i)), i)
					k.In("tree", t.String())
					k.Nontrivial(f + "semantic" + t.String())
					semanticMutations(k, t, i, c.N(200, 2000))
				})
			}
			if f == "twkb" {
				c.Case("varint:"+f, i, func(k *run.K) {
					if e, ok := mk(k); ok {
						varints(k, e)
					}
				})
			}
			if f == "wkt" || f == "geojson" {
				c.Case("tokens:"+f, i, func(k *run.K) {
					if e, ok := mk(k); ok {
						tokenMutations(k, e, c.N(150, 1500))
					}
				})
			}
			if f == "geojson" {
				c.Case("feature:"+f, i, func(k *run.K) {
					if e, ok := mk(k); ok {
						featureDocs(k, e, c.N(60, 600))
					}
				})
			}
			c.Case("splice:"+f, i, func(k *run.K) {
				e1, ok1 := mk(k)
				e2, ok2 := corpusEntry(run.NewRng(c.Seed, "corpus", f, fmt.Sprint(i+1)), f, i+1)
				if !ok1 || !ok2 {
					return
				}
				for j := 0; j < 40; j++ {
					a, b := k.Rng.Intn(len(e1.data)+1), k.Rng.Intn(len(e2.data)+1)
					feed(k, f, append(append([]byte(nil), e1.data[:a]...), e2.data[b:]...))
				}
				k.Count("class_splice", 40)
			})
		}
		// PRNG byte strings
		for i := 0; i < c.N(60, 600); i++ {
			c.Case("random:"+f, i, func(k *run.K) {
				k.In("format", f)
				k.Nontrivial(f + fmt.Sprint("random", i))
				for j := 0; j < 100; j++ {
					n := k.Rng.Intn(64)
					if j%25 == 0 {
						n = k.Rng.Intn(65536)
					}
					b := make([]byte, n)
					for x := range b {
						b[x] = byte(k.Rng.Uint64())
					}
					if f == "wkb" && n > 5 && k.Rng.Bool() { // plausible header
						b[0] = byte(k.Rng.Intn(2))
						binary.LittleEndian.PutUint32(b[1:], uint32(k.Rng.Intn(8)+1000*k.Rng.Intn(4)))
						if b[0] == 0 {
							binary.BigEndian.PutUint32(b[1:], uint32(k.Rng.Intn(8)+1000*k.Rng.Intn(4)))
						}
					}
					if f == "twkb" && n > 2 && k.Rng.Bool() {
						b[0] = byte(k.Rng.Intn(8)) | byte(k.Rng.Intn(16))<<4
						b[1] = byte(k.Rng.Intn(32))
					}
					feed(k, f, b)
				}
				k.Count("class_random", 100)
			})
		}
	}
	for _, f := range []string{"wkt", "geojson"} {
		f := f
		for i, d := range []int{10, 100, 1000, 3000} {
			d := d
			c.Case("nesting:"+f, i, func(k *run.K) {
				k.In("format", f)
				k.In("depth", fmt.Sprint(d))
				k.Nontrivial(f + fmt.Sprint("nest", d))
				nested(k, f, d)
			})
		}
	}
}

// ---------- native fuzzing as an extra workload generator (driver side) ----------

func init() { run.PostHooks["C08"] = postFuzz }

var fuzzExecs = regexp.MustCompile(`execs: (\d+)`)
var fuzzFailing = regexp.MustCompile(`Failing input written to (\S+)`)

// postFuzz runs the coverage-guided fuzz targets of fuzz_test.go (same monitors
// as the enumerated corruptions) with an execution-count budget.
func postFuzz(d *run.Driver) {
	budget := "40000x"
	if d.Tier == "thorough" {
		budget = "2000000x"
	}
	harness := filepath.Join(d.Root, "harness")
	for _, target := range []string{"FuzzWKB", "FuzzTWKB", "FuzzWKT", "FuzzGeoJSON"} {
		args := []string{"test", "-tags", "verif"}
		if mf := os.Getenv("VERIF_MODFILE"); mf != "" {
			args = append(args, "-modfile="+mf)
		}
		args = append(args, "-run=^$", "-fuzz=^"+target+"$", "-fuzztime="+budget, "./props/c08/")
		cmd := exec.Command("go", args...)
		cmd.Dir = harness
		cmd.Env = append(os.Environ(), "GOFLAGS=-mod=mod", "GOPROXY=off", "GOSUMDB=off", "GOTOOLCHAIN=local")
		out, err := cmd.CombinedOutput()
		mon := "fuzz-" + strings.ToLower(strings.TrimPrefix(target, "Fuzz"))
		m := d.Agg.Monitors[mon]
		if m == nil {
			m = &run.MonStat{}
			d.Agg.Monitors[mon] = m
		}
		execs := int64(0)
		for _, mm := range fuzzExecs.FindAllStringSubmatch(string(out), -1) {
			fmt.Sscan(mm[1], &execs)
		}
		m.Checks += execs
		d.Agg.Counters["fuzz_execs_"+target] = execs
		if err == nil {
			continue
		}
		text := string(out)
		if !strings.Contains(text, "FAIL") {
			d.Agg.Inconcl = append(d.Agg.Inconcl, fmt.Sprintf("fuzz target %s could not run: %v: %s", target, err, tailStr(text, 600)))
			continue
		}
		m.Fails++
		dir := filepath.Join(run.ReplayRoot(d.Root), "C08")
		os.MkdirAll(dir, 0o755)
		replay := filepath.Join(dir, "fuzz-"+target+".txt")
		body := "native fuzzing (" + target + ") found an input on which a C08 monitor fails\n" + tailStr(text, 6000)
		if mm := fuzzFailing.FindStringSubmatch(text); mm != nil {
			src := filepath.Join(harness, "props", "c08", mm[1])
			if b, e := os.ReadFile(src); e == nil {
				body += "\n--- failing input (go fuzz corpus file format) ---\n" + string(b)
				os.Remove(src)
			}
		}
		os.WriteFile(replay, []byte(body), 0o644)
		d.Agg.Violations = append(d.Agg.Violations, run.Violation{Monitor: mon, Class: "", Detail: tailStr(text, 1500), Stream: target, Replay: replay})
	}
	// never leave crashers in the source tree
	os.RemoveAll(filepath.Join(harness, "props", "c08", "testdata"))
}

func tailStr(s string, n int) string {
	if len(s) > n {
		return s[len(s)-n:]
	}
	return s
}
