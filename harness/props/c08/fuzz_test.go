//go:build verif

package c08

import (
	"testing"

	"verif/run"
)

// Native coverage-guided fuzzing is used as an additional workload generator in
// the thorough tier; the oracle is the same set of monitors (feed).

func fuzzSeeds(f *testing.F, format string) {
	for i := 0; i < 56; i++ {
		if e, ok := corpusEntry(run.NewRng(1, "corpus", format, string(rune('a'+i))), format, i); ok {
			f.Add(e.data)
		}
	}
}

func fuzzOne(t *testing.T, format string, data []byte) {
	if len(data) > 65536 {
		return
	}
	k := run.NewStandaloneK(run.Lookup("C08"), "fuzz:"+format)
	feed(k, format, data)
	if vs := k.Violations(); len(vs) > 0 {
		t.Fatalf("monitor=%s class=%s %s", vs[0].Monitor, vs[0].Class, vs[0].Detail)
	}
}

func FuzzWKB(f *testing.F) {
	fuzzSeeds(f, "wkb")
	f.Fuzz(func(t *testing.T, b []byte) { fuzzOne(t, "wkb", b) })
}

func FuzzTWKB(f *testing.F) {
	fuzzSeeds(f, "twkb")
	f.Fuzz(func(t *testing.T, b []byte) { fuzzOne(t, "twkb", b) })
}

func FuzzWKT(f *testing.F) {
	fuzzSeeds(f, "wkt")
	f.Fuzz(func(t *testing.T, b []byte) { fuzzOne(t, "wkt", b) })
}

func FuzzGeoJSON(f *testing.F) {
	fuzzSeeds(f, "geojson")
	f.Fuzz(func(t *testing.T, b []byte) { fuzzOne(t, "geojson", b) })
}
