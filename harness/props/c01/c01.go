// Package c01 monitors the overlay set operations against the exact
// arrangement oracle (membership at every cell, area, length, points, shape,
// laws) and the overlay structure hook.
package c01

import (
	"fmt"
	"math"
	"math/big"
	"sort"

	"github.com/peterstace/simplefeatures/geom"

	"verif/exact"
	"verif/gen"
	"verif/props/shared"
	"verif/run"
)

func init() {
	run.Register(&run.Property{
		ID:    "C01",
		Title: "Overlay set operations return exactly the set-theoretic result",
		Rule: "cases = operand pairs (all 7x7 type pairs + empties, collections with overlapping members) and UnionMany lists drawn by PRNG from D-small/D-large/D-gp; each case runs Union, Intersection, Difference, SymmetricDifference, UnaryUnion (+laws) and judges every result at every arrangement cell against the exact Boolean decomposition. " +
			"non-trivial = both operands non-empty and some arrangement cell belongs to both closures; distinct by operand WKB",
		Assumptions: []string{
			"exact rational arrangement oracle (verif/exact); tolerance tau=1e-9*M only where the library's re-noding may move nodes; out-samples closer than 1e-7*M to another cell are skipped and counted",
			"cases with clearance < 1e-9*M (lattice) or < 1e-6*M (general position) are excluded and counted",
			"exact validity of a result is only demanded when all its ordinates are integers",
		},
		MinNontrivial:    150,
		RequiredMonitors: []string{"noerr", "valid", "member-in", "member-out", "face-strict", "area", "length", "points", "shape", "law-commute", "law-idem", "law-incl-excl", "law-compose", "overlay-hook"},
		Run:              runAll,
	})
}

type opDef struct {
	name string
	fn   func(a, b geom.Geometry) (geom.Geometry, error)
	op   func(x, y bool) bool
	comm bool
}

var ops = []opDef{
	{"Union", geom.Union, func(x, y bool) bool { return x || y }, true},
	{"Intersection", geom.Intersection, func(x, y bool) bool { return x && y }, true},
	{"Difference", geom.Difference, func(x, y bool) bool { return x && !y }, false},
	{"SymmetricDifference", geom.SymmetricDifference, func(x, y bool) bool { return x != y }, true},
}

// sibling-covered-hole classifier: some face of the arrangement of the operand
// lies in a hole of one areal member and inside another areal member.
func holeCoveredBySibling(s *exact.Shape) bool {
	if len(s.Polys) < 2 {
		return false
	}
	withHole := false
	for _, p := range s.Polys {
		if len(p) > 1 {
			withHole = true
		}
	}
	if !withHole {
		return false
	}
	arr := exact.BuildArr(s.Segs(0), nil)
	fs, _ := arr.FaceSamples()
	for f := 1; f < arr.NFaces; f++ {
		inHole, inOther := -1, false
		for pi, p := range s.Polys {
			if exact.RingLoc(p[0], fs[f]) >= 0 {
				continue
			}
			for _, h := range p[1:] {
				if exact.RingLoc(h, fs[f]) < 0 {
					inHole = pi
				}
			}
		}
		if inHole < 0 {
			continue
		}
		for pi, p := range s.Polys {
			if pi != inHole && exact.PolyLoc(p, fs[f]) == exact.LocI {
				inOther = true
			}
		}
		if inOther {
			return true
		}
	}
	return false
}

// judge compares result r (error err) with the decomposition d.
// prefix distinguishes the entry point in messages; lawMon, when non-empty,
// redirects every failing sub-monitor to that law monitor.
func judge(k *run.K, label string, r geom.Geometry, err error, d *exact.Decomp, m float64, class string, lawMon string) {
	mon := func(n string) string {
		if lawMon != "" {
			return lawMon
		}
		return n
	}
	if !k.CheckClass(mon("noerr"), class, err == nil, "%s returned error: %v", label, err) {
		return
	}
	tau := 1e-9 * m
	// validity
	var verr error
	if k.Lib("nopanic", func() { verr = r.Validate() }) {
		return
	}
	k.CheckClass(mon("valid"), class, verr == nil, "%s result fails Validate: %v; result %s", label, verr, r.AsText())
	if shared.AllInts(r) {
		v := exact.ValidGeom(r)
		if v.Inconsistent != "" {
			k.Skip("valid")
		} else {
			k.CheckClass(mon("valid"), class, v.OK, "%s result is not valid by the exact oracle: %s; result %s", label, v.Rule, r.AsText())
		}
	}
	rs := exact.FromGeom(r)
	// membership at every cell
	for ci, c := range d.Cells {
		dsq, nonEmpty := exact.DistSqToShape(rs, c.Sample)
		dist := math.Inf(1)
		if nonEmpty {
			dist = exact.Sqrt(dsq)
		}
		if c.InCl {
			k.CheckClass(mon("member-in"), class, dist <= tau, "%s: %d-cell sample (%g %g) is in cl(S) but %.3g away from the result %s", label, c.Dim, c.Sample.FX, c.Sample.FY, dist, r.AsText())
		} else {
			sep := d.Arr.SepOfSample(c, ci)
			if sep < 1e-7*m {
				k.Skip("member-out")
				continue
			}
			k.CheckClass(mon("member-out"), class, dist >= sep/2, "%s: %d-cell sample (%g %g) is outside cl(S) but only %.3g from the result (sep %.3g) %s", label, c.Dim, c.Sample.FX, c.Sample.FY, dist, sep, r.AsText())
		}
		if c.Dim == 2 {
			sep := d.Arr.SepOfSample(c, ci)
			if sep < 1e-7*m {
				k.Skip("face-strict")
				continue
			}
			inAreal := false
			onAreal := false
			for _, p := range rs.Polys {
				switch exact.PolyLoc(p, c.Sample) {
				case exact.LocI:
					inAreal = true
				case exact.LocB:
					onAreal = true
				}
			}
			if c.InS {
				k.CheckClass(mon("face-strict"), class, inAreal, "%s: face sample (%g %g) in S is not strictly inside the areal part of %s", label, c.Sample.FX, c.Sample.FY, r.AsText())
			} else {
				k.CheckClass(mon("face-strict"), class, !inAreal && !onAreal, "%s: face sample (%g %g) outside S is inside the areal part of %s", label, c.Sample.FX, c.Sample.FY, r.AsText())
			}
		}
	}
	// totals
	wantArea := exact.F(d.Area)
	gotArea := exact.F(rs.Area())
	k.CheckClass(mon("area"), class, math.Abs(gotArea-wantArea) <= 1e-9*m*m, "%s: area of result %.12g, exact area of S %.12g; result %s", label, gotArea, wantArea, r.AsText())
	gotLen := rs.Length()
	k.CheckClass(mon("length"), class, math.Abs(gotLen-d.Length) <= 1e-9*m*float64(1+d.NEdges), "%s: lineal length of result %.12g, exact lineal remainder %.12g; result %s", label, gotLen, d.Length, r.AsText())
	// isolated points: bijection within tau
	got := append([]exact.Pt(nil), rs.Pts...)
	okPts := len(got) == len(d.Points)
	if okPts {
		used := make([]bool, len(got))
		for _, w := range d.Points {
			found := false
			for i, g := range got {
				if !used[i] && math.Hypot(g.FX-w.FX, g.FY-w.FY) <= tau {
					used[i], found = true, true
					break
				}
			}
			if !found {
				okPts = false
			}
		}
	}
	k.CheckClass(mon("points"), class, okPts, "%s: result has %d point members, exact set has %d isolated points; result %s", label, len(got), len(d.Points), r.AsText())
	// canonical shape
	k.CheckClass(mon("shape"), class, shapeOK(r) == "", "%s: non-canonical result shape (%s): %s", label, shapeOK(r), r.AsText())
}

func shapeOK(r geom.Geometry) string {
	if r.CoordinatesType() != geom.DimXY {
		return "coordinate type not XY"
	}
	if r.IsEmpty() {
		if !r.IsGeometryCollection() || r.MustAsGeometryCollection().NumGeometries() != 0 {
			return "empty result is not the empty GeometryCollection"
		}
		return ""
	}
	dims := map[int]bool{}
	var walk func(g geom.Geometry, top bool) string
	walk = func(g geom.Geometry, top bool) string {
		if g.IsEmpty() {
			return "empty member"
		}
		switch g.Type() {
		case geom.TypePoint:
			dims[0] = true
		case geom.TypeMultiPoint:
			dims[0] = true
		case geom.TypeLineString:
			dims[1] = true
		case geom.TypeMultiLineString:
			dims[1] = true
		case geom.TypePolygon:
			dims[2] = true
		case geom.TypeMultiPolygon:
			dims[2] = true
		case geom.TypeGeometryCollection:
			if !top {
				return "nested GeometryCollection"
			}
			gc := g.MustAsGeometryCollection()
			for i := 0; i < gc.NumGeometries(); i++ {
				if s := walk(gc.GeometryN(i), false); s != "" {
					return s
				}
			}
			if len(dims) < 2 {
				return "GeometryCollection with a single dimension"
			}
		}
		return ""
	}
	return walk(r, true)
}

func orOp(x, y bool) bool { return x || y }

// Pair runs every C01 monitor on one operand pair.
func Pair(k *run.K, domain string, a, b geom.Geometry, laws bool) {
	sa, sb := exact.FromGeom(a), exact.FromGeom(b)
	jc := exact.NewJC(sa, sb)
	if jc.Arr.Err != "" {
		k.Skip("oracle-inconsistent")
		k.Count("oracle_inconsistent", 1)
		return
	}
	m := shared.MaxAbs2(sa, sb)
	if cl := jc.Arr.Clearance(); cl < shared.ClearanceBound(domain, m) {
		k.Skip("noerr")
		k.Count("excluded_by_clearance", 1)
		return
	}
	k.Distinct("type_pairs", shared.TypeName(a)+"/"+shared.TypeName(b))
	if !a.IsEmpty() && !b.IsEmpty() && jc.Overlap {
		k.Nontrivial(string(a.AsBinary()) + "|" + string(b.AsBinary()))
	}
	class := ""
	if holeCoveredBySibling(sa) || holeCoveredBySibling(sb) {
		class = "hole-of-member-covered-by-sibling"
		k.Count("class_hole_covered_by_sibling", 1)
	}
	// hook
	if !a.IsEmpty() && !b.IsEmpty() {
		var viol []string
		var st geom.VerifOverlayStats
		if !k.Lib("nopanic", func() { viol, st = geom.VerifOverlayInvariants(a, b) }) {
			k.Check("overlay-hook", len(viol) == 0, "VerifOverlayInvariants: %v", viol)
			k.Distinct("overlay_shapes", fmt.Sprintf("V%d,H%d,F%d", st.Vertices, st.HalfEdges, st.Faces))
			k.Max("max_vertex_degree", float64(st.MaxDegree))
		}
	}
	results := map[string]geom.Geometry{}
	errs := map[string]error{}
	for _, o := range ops {
		var r geom.Geometry
		var err error
		if k.Lib("nopanic", func() { r, err = o.fn(a, b) }) {
			continue
		}
		results[o.name], errs[o.name] = r, err
		d := jc.Decompose(o.op)
		if k.Sampled() {
			k.Obs(o.name, shared.WKT(r))
			k.Obs(o.name+"_exact_area", exact.F(d.Area))
		}
		judge(k, o.name+"(a,b)", r, err, d, m, class, "")
		k.Count("set_op_evaluations", 1)
		if laws && o.comm {
			var r2 geom.Geometry
			var err2 error
			if !k.Lib("nopanic", func() { r2, err2 = o.fn(b, a) }) {
				judge(k, o.name+"(b,a)", r2, err2, d, m, class, "law-commute")
				k.Count("set_op_evaluations", 1)
			}
		}
	}
	// UnaryUnion of each operand and idempotence
	for i, g := range []geom.Geometry{a, b} {
		s := []*exact.Shape{sa, sb}[i]
		jg := exact.NewJC(s, exact.NewShape())
		if jg.Arr.Err != "" {
			continue
		}
		d := jg.Decompose(orOp)
		var r geom.Geometry
		var err error
		if k.Lib("nopanic", func() { r, err = geom.UnaryUnion(g) }) {
			continue
		}
		cls := ""
		if holeCoveredBySibling(s) {
			cls = "hole-of-member-covered-by-sibling"
		}
		judge(k, fmt.Sprintf("UnaryUnion(%c)", 'a'+i), r, err, d, m, cls, "")
		results[fmt.Sprintf("uu%d", i)], errs[fmt.Sprintf("uu%d", i)] = r, err
		k.Count("set_op_evaluations", 1)
		if laws && i == 0 {
			var r1, r2 geom.Geometry
			var e1, e2 error
			if !k.Lib("nopanic", func() { r1, e1 = geom.Union(g, g); r2, e2 = geom.Intersection(g, g) }) {
				if g.IsEmpty() {
					// Intersection(∅,∅) and Union(∅,∅) are the empty collection
					judge(k, "Union(a,a)", r1, e1, d, m, cls, "law-idem")
					judge(k, "Intersection(a,a)", r2, e2, d, m, cls, "law-idem")
				} else {
					judge(k, "Union(a,a)", r1, e1, d, m, cls, "law-idem")
					judge(k, "Intersection(a,a)", r2, e2, d, m, cls, "law-idem")
				}
				k.Count("set_op_evaluations", 2)
			}
		}
	}
	if !laws {
		return
	}
	// inclusion-exclusion of area on the results themselves
	if errs["Union"] == nil && errs["Intersection"] == nil && errs["uu0"] == nil && errs["uu1"] == nil {
		ar := func(n string) *big.Rat { return exact.FromGeom(results[n]).Area() }
		lhs := new(big.Rat).Add(ar("Union"), ar("Intersection"))
		rhs := new(big.Rat).Add(ar("uu0"), ar("uu1"))
		diff := math.Abs(exact.F(lhs) - exact.F(rhs))
		k.CheckClass("law-incl-excl", class, diff <= 4e-9*m*m, "area(a∪b)+area(a∩b)=%.12g but area(∪a)+area(∪b)=%.12g", exact.F(lhs), exact.F(rhs))
	}
	// A = (A-B) ∪ (A∩B), composed through the library
	if errs["Difference"] == nil && errs["Intersection"] == nil {
		var r geom.Geometry
		var err error
		if !k.Lib("nopanic", func() { r, err = geom.Union(results["Difference"], results["Intersection"]) }) {
			if err != nil {
				k.Skip("law-compose")
				k.Count("composed_call_errors", 1)
			} else {
				d := exact.NewJC(sa, exact.NewShape())
				if d.Arr.Err == "" {
					// the composed inputs are the library's own (rounded) outputs: judge
					// membership and totals only, against S = in a, on a's own arrangement
					dd := d.Decompose(orOp)
					judgeLoose(k, "Union(Difference(a,b),Intersection(a,b))", r, dd, m, class)
				}
			}
		}
	}
}

// judgeLoose: membership and area only (used for composed calls whose inputs
// are no longer lattice inputs).
func judgeLoose(k *run.K, label string, r geom.Geometry, d *exact.Decomp, m float64, class string) {
	tau := 1e-9 * m
	rs := exact.FromGeom(r)
	for ci, c := range d.Cells {
		dsq, nonEmpty := exact.DistSqToShape(rs, c.Sample)
		dist := math.Inf(1)
		if nonEmpty {
			dist = exact.Sqrt(dsq)
		}
		if c.InCl {
			k.CheckClass("law-compose", class, dist <= tau, "%s: sample (%g %g) of a is %.3g away from the result %s", label, c.Sample.FX, c.Sample.FY, dist, r.AsText())
		} else {
			sep := d.Arr.SepOfSample(c, ci)
			if sep < 1e-7*m {
				continue
			}
			k.CheckClass("law-compose", class, dist >= sep/2, "%s: sample (%g %g) outside a is only %.3g from the result %s", label, c.Sample.FX, c.Sample.FY, dist, r.AsText())
		}
	}
	k.CheckClass("law-compose", class, math.Abs(exact.F(rs.Area())-exact.F(d.Area)) <= 1e-9*m*m, "%s: area %.12g, area of a %.12g", label, exact.F(rs.Area()), exact.F(d.Area))
}

func operand(g *gen.G, kind int) geom.Geometry {
	switch {
	case kind < 7:
		x := g.Typed(gen.AllTypes[kind], 1)
		if g.R.Chance(1, 3) { // empty members at random positions of Multi*/collections
			x = gen.WithEmpties(g.R, x, 2)
		}
		return x
	default:
		return gen.EmptyOf(gen.AllTypes[g.R.Intn(7)], geom.DimXY)
	}
}

// nestedCollection: the targeted family "member with a hole covered by a
// sibling", "two members sharing an edge", "point/line member inside an areal member".
func targetedCollection(g *gen.G) geom.Geometry {
	p := g.Polygon()
	ms := []geom.Geometry{p.AsGeometry()}
	switch g.R.Intn(3) {
	case 0:
		ms = append(ms, g.Polygon().AsGeometry())
	case 1:
		ms = append(ms, g.LineString().AsGeometry(), g.Point().AsGeometry())
	case 2:
		ms = append(ms, g.MultiPolygon().AsGeometry())
	}
	perm := g.R.Perm(len(ms))
	out := make([]geom.Geometry, len(ms))
	for i, j := range perm {
		out[i] = ms[j]
	}
	return geom.NewGeometryCollection(out).AsGeometry()
}

func runAll(c *run.Ctx) {
	perPair := c.N(110, 1200)
	for ka := 0; ka < 8; ka++ {
		for kb := 0; kb < 8; kb++ {
			n := perPair
			if ka == 7 || kb == 7 {
				n = perPair / 3
			}
			for i := 0; i < n; i++ {
				c.Case(fmt.Sprintf("pair:%d-%d", ka, kb), i, func(k *run.K) {
					domain := shared.PickDomain(k.Rng)
					g := &gen.G{R: k.Rng, Cfg: gen.NewCfg(k.Rng, domain)}
					a, b := operand(g, ka), operand(g, kb)
					k.In("domain", domain)
					k.In("a", shared.WKT(a))
					k.In("b", shared.WKT(b))
					Pair(k, domain, a, b, true)
				})
			}
		}
	}
	// concurrent edges: three or more segments of the two operands through one non-lattice point, whose
	// position every pair of them computes with its own rounding
	for i := 0; i < c.N(2500, 40000); i++ {
		c.Case("concurrent", i, func(k *run.K) {
			domain := gen.DSmall
			cfg := gen.NewCfg(k.Rng, domain)
			cfg.Side = k.Rng.Range(6, 14)
			if k.Rng.Chance(3, 4) {
				// the lattice box straddles the origin: a crossing computed as a + (b-a)*t then has a finer ulp
				// than the product, so that the rounding of t survives in the result (and differs between pairs)
				cfg.OffX, cfg.OffY = -k.Rng.Range(0, cfg.Side), -k.Rng.Range(0, cfg.Side)
				cfg.CenterOnP = k.Rng.Bool()
			}
			g := &gen.G{R: k.Rng, Cfg: cfg}
			a, b, ok := g.ConcurrentPair()
			if !ok {
				k.Skip("member-in")
				return
			}
			k.In("domain", domain)
			k.In("a", shared.WKT(a))
			k.In("b", shared.WKT(b))
			Pair(k, domain, a, b, true)
			Pair(k, domain, b, a, false)
		})
	}
	// the same configurations in bulk through the structural hook only (no oracle): a snapping miss leaves
	// two nodes where the overlay needs one and breaks Euler's formula
	for i := 0; i < c.N(1200, 12000); i++ {
		c.Case("concurrent-hook", i, func(k *run.K) {
			k.Nontrivial(fmt.Sprint("concurrent-hook", k.Index))
			for rep := 0; rep < 25; rep++ {
				cfg := gen.NewCfg(k.Rng, gen.DSmall)
				cfg.Side = k.Rng.Range(6, 14)
				cfg.OffX, cfg.OffY = -k.Rng.Range(0, cfg.Side), -k.Rng.Range(0, cfg.Side)
				cfg.CenterOnP = rep%3 != 0
				g := &gen.G{R: k.Rng, Cfg: cfg}
				a, b, ok := g.ConcurrentPair()
				if !ok {
					continue
				}
				for _, pr := range [][2]geom.Geometry{{a, b}, {b, a}} {
					var viol []string
					if !k.Lib("nopanic", func() { viol, _ = geom.VerifOverlayInvariants(pr[0], pr[1]) }) {
						if !k.Check("overlay-hook", len(viol) == 0, "VerifOverlayInvariants: %v\n a=%s\n b=%s", viol, pr[0].AsText(), pr[1].AsText()) {
							return
						}
					}
				}
				k.Count("concurrent_hook_pairs", 1)
			}
		})
	}
	// stress stream: operands with up to three times as many vertices (large lattice and general position)
	for i := 0; i < c.N(300, 6000); i++ {
		c.Case("big", i, func(k *run.K) {
			domain := []string{gen.DLarge, gen.DGP, gen.DSmall}[k.Rng.Intn(3)]
			cfg := gen.NewCfg(k.Rng, domain)
			cfg.Big = true
			if domain == gen.DSmall {
				cfg.Side = 12
			}
			g := &gen.G{R: k.Rng, Cfg: cfg}
			a, b := g.Typed(gen.AllTypes[k.Rng.Intn(7)], 1), g.Typed(gen.AllTypes[k.Rng.Intn(7)], 1)
			k.In("domain", domain)
			k.In("a", shared.WKT(a))
			k.In("b", shared.WKT(b))
			Pair(k, domain, a, b, false)
		})
	}
	for i := 0; i < c.N(1500, 20000); i++ {
		c.Case("grid", i, func(k *run.K) {
			// both operands on the grid lines of one small lattice: collinear overlaps, shared
			// vertices and edges, touching rings are the rule
			domain := gen.DSmall
			g := &gen.G{R: k.Rng, Cfg: gen.NewCfg(k.Rng, domain)}
			a := g.GridTyped(gen.AllTypes[k.Rng.Intn(7)])
			b := g.GridTyped(gen.AllTypes[k.Rng.Intn(7)])
			k.In("domain", domain)
			k.In("a", shared.WKT(a))
			k.In("b", shared.WKT(b))
			Pair(k, domain, a, b, k.Rng.Chance(1, 3))
		})
	}
	for i := 0; i < c.N(1200, 12000); i++ {
		c.Case("targeted-collection", i, func(k *run.K) {
			domain := gen.DSmall
			g := &gen.G{R: k.Rng, Cfg: gen.NewCfg(k.Rng, domain)}
			a := targetedCollection(g)
			b := g.Any(1)
			k.In("domain", domain)
			k.In("a", shared.WKT(a))
			k.In("b", shared.WKT(b))
			Pair(k, domain, a, b, false)
		})
	}
	// near misses at scale: a vertex a few clearances (2..40 x 1e-6 M) away from the interior of a segment about
	// as long as the magnitude M of the coordinates (1e3..1e9): exactly disjoint, and inside the domain
	for i := 0; i < c.N(600, 8000); i++ {
		c.Case("near-miss", i, func(k *run.K) {
			r := k.Rng
			M := []float64{1e3, 1e6, 1e7, 1e8, 1e9}[r.Intn(5)]
			ox, oy := math.Floor(r.Float64()*M/4), math.Floor(r.Float64()*M/4)
			ax, ay := ox, oy
			bx, by := ox+math.Floor(M*(0.5+r.Float64()/2)), oy+math.Floor(M*(r.Float64()-0.3))
			s := 0.15 + 0.7*r.Float64()
			fx, fy := ax+s*(bx-ax), ay+s*(by-ay)
			ln := math.Hypot(bx-ax, by-ay)
			nx, ny := -(by-ay)/ln, (bx-ax)/ln
			if r.Bool() {
				nx, ny = -nx, -ny
			}
			d := float64(r.Range(2, 40)) * 1e-6 * M * 2
			px, py := fx+d*nx, fy+d*ny
			var a, b geom.Geometry
			if r.Bool() {
				a = geom.NewLineStringXY(ax, ay, bx, by).AsGeometry()
			} else { // a triangle on the far side of the segment
				cx, cy := fx-nx*ln/3, fy-ny*ln/3
				a = geom.NewPolygonXY([]float64{ax, ay, bx, by, cx, cy, ax, ay}).AsGeometry()
			}
			switch r.Intn(3) {
			case 0:
				b = geom.NewPointXY(px, py).AsGeometry()
			case 1: // a small square beyond P
				h := d / 2
				qx, qy := px+nx*h, py+ny*h
				b = geom.NewPolygonXY([]float64{qx - h/2, qy - h/2, qx + h/2, qy - h/2, qx + h/2, qy + h/2, qx - h/2, qy + h/2, qx - h/2, qy - h/2}).AsGeometry()
			default: // a short line starting at P and leading away
				b = geom.NewLineStringXY(px, py, px+nx*d*3, py+ny*d*3).AsGeometry()
			}
			if !exact.ValidGeom(a).OK || !exact.ValidGeom(b).OK {
				k.Skip("member-in")
				return
			}
			k.In("domain", gen.DGP)
			k.In("magnitude", fmt.Sprint(M))
			k.In("a", shared.WKT(a))
			k.In("b", shared.WKT(b))
			Pair(k, gen.DGP, a, b, false)
			Pair(k, gen.DGP, b, a, false)
		})
	}
	// multiplicity: hundreds of copies of a few overlapping areal members (counts around 256 and 512) in a
	// UnionMany list or as the members of a collection operand: the point set is that of the distinct members
	for i := 0; i < c.N(120, 1500); i++ {
		c.Case("multiplicity", i, func(k *run.K) {
			domain := gen.DSmall
			g := &gen.G{R: k.Rng, Cfg: gen.NewCfg(k.Rng, domain)}
			nd := k.Rng.Range(1, 3)
			distinct := make([]geom.Geometry, nd)
			for j := range distinct {
				distinct[j] = g.Typed([]geom.GeometryType{geom.TypePolygon, geom.TypePolygon, geom.TypeMultiPolygon}[k.Rng.Intn(3)], 0)
			}
			other := g.Typed(gen.AllTypes[k.Rng.Intn(6)], 0)
			N := []int{255, 256, 257, 300, 511, 512, 513, 768}[k.Rng.Intn(8)]
			big := make([]geom.Geometry, N)
			for j := range big {
				big[j] = distinct[j%nd] // every distinct member at least once, in rotation
			}
			k.In("domain", domain)
			k.In("copies", fmt.Sprint(N))
			k.In("distinct", shared.WKT(geom.NewGeometryCollection(distinct).AsGeometry()))
			k.In("other", shared.WKT(other))
			k.Nontrivial(fmt.Sprint(N) + string(geom.NewGeometryCollection(distinct).AsGeometry().AsBinary()))
			sd, so := exact.FromGeom(geom.NewGeometryCollection(distinct).AsGeometry()), exact.FromGeom(other)
			jc := exact.NewJC(sd, so)
			if jc.Arr.Err != "" {
				k.Skip("oracle-inconsistent")
				return
			}
			m := math.Max(sd.MaxAbs(), so.MaxAbs())
			if cl := jc.Arr.Clearance(); cl < shared.ClearanceBound(domain, m) {
				k.Skip("noerr")
				k.Count("excluded_by_clearance", 1)
				return
			}
			class := ""
			if holeCoveredBySibling(sd) {
				class = "hole-of-member-covered-by-sibling"
			}
			bigGC := geom.NewGeometryCollection(big).AsGeometry()
			var r geom.Geometry
			var err error
			if !k.Lib("nopanic", func() { r, err = geom.UnionMany(big) }) {
				judge(k, fmt.Sprintf("UnionMany(%d copies)", N), r, err, jc.Decompose(func(a, b bool) bool { return a }), m, class, "")
			}
			if !k.Lib("nopanic", func() { r, err = geom.UnaryUnion(bigGC) }) {
				judge(k, fmt.Sprintf("UnaryUnion(collection of %d copies)", N), r, err, jc.Decompose(func(a, b bool) bool { return a }), m, class, "")
			}
			if !k.Lib("nopanic", func() { r, err = geom.Intersection(bigGC, other) }) {
				judge(k, fmt.Sprintf("Intersection(collection of %d copies, other)", N), r, err, jc.Decompose(func(a, b bool) bool { return a && b }), m, class, "")
			}
			if !k.Lib("nopanic", func() { r, err = geom.Difference(other, bigGC) }) {
				judge(k, fmt.Sprintf("Difference(other, collection of %d copies)", N), r, err, jc.Decompose(func(a, b bool) bool { return b && !a }), m, class, "")
			}
			k.Count("set_op_evaluations", 4)
		})
	}
	for i := 0; i < c.N(1200, 15000); i++ {
		c.Case("union-many", i, func(k *run.K) {
			domain := shared.PickDomain(k.Rng)
			g := &gen.G{R: k.Rng, Cfg: gen.NewCfg(k.Rng, domain)}
			n := k.Rng.Intn(6)
			list := make([]geom.Geometry, n)
			var names []string
			for j := range list {
				list[j] = g.Any(1)
				names = append(names, list[j].AsText())
			}
			sort.Strings(names)
			k.In("domain", domain)
			k.In("list", fmt.Sprint(names))
			gc := geom.NewGeometryCollection(list).AsGeometry()
			s := exact.FromGeom(gc)
			jc := exact.NewJC(s, exact.NewShape())
			if jc.Arr.Err != "" {
				k.Skip("oracle-inconsistent")
				return
			}
			m := s.MaxAbs()
			if cl := jc.Arr.Clearance(); cl < shared.ClearanceBound(domain, m) {
				k.Skip("noerr")
				k.Count("excluded_by_clearance", 1)
				return
			}
			class := ""
			if holeCoveredBySibling(s) {
				class = "hole-of-member-covered-by-sibling"
			}
			var r geom.Geometry
			var err error
			if k.Lib("nopanic", func() { r, err = geom.UnionMany(list) }) {
				return
			}
			if n >= 2 && jc.Overlap || len(s.Polys) >= 2 {
				k.Nontrivial(string(gc.AsBinary()))
			}
			judge(k, "UnionMany(list)", r, err, jc.Decompose(orOp), m, class, "")
			k.Count("set_op_evaluations", 1)
		})
	}
}
