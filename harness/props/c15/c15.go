// Package c15 monitors Boundary and PointOnSurface against the exact
// interior/boundary model.
package c15

import (
	"bytes"
	"math"

	"github.com/peterstace/simplefeatures/geom"

	"verif/exact"
	"verif/gen"
	"verif/props/shared"
	"verif/run"
)

func init() {
	run.Register(&run.Property{
		ID:    "C15",
		Title: "Boundary and PointOnSurface are consistent with the interior/boundary model",
		Rule: "[added in rounds 9-11: nested-empties: collections nested to depth 3 built from every kind of empty; every judgement repeated on a copy with independent Z/M] cases = valid geometries of every type (holes touching the shell, narrow/concave cell polygons, closed and self-touching lines, multilinestrings sharing endpoints 2/3/4 ways, collections with empty members) from D-small/D-large/D-gp, plus targeted narrow polygons whose envelope-centre row hits vertices; " +
			"Boundary is compared as a point set with {p: locate(g,p)=B} on every cell of the exact arrangement, PointOnSurface is located exactly. non-trivial = geometry of dimension >= 1 with a non-empty boundary or an areal geometry; distinct by WKB",
		Assumptions:      []string{"exact locate per OGC (mod-2 rule) is the reference; collections are judged structurally (boundary = collection of member boundaries) and on PointOnSurface membership in a highest-dimension member"},
		MinNontrivial:    500,
		RequiredMonitors: []string{"boundary-set", "boundary-dim", "boundary-of-boundary", "boundary-locates", "boundary-collection", "pos-empty-iff", "pos-finite", "pos-inside", "dimension", "concrete-entry"},
		Run:              runAll,
	})
}

func nominalDim(g geom.Geometry) int {
	switch g.Type() {
	case geom.TypePoint, geom.TypeMultiPoint:
		return 0
	case geom.TypeLineString, geom.TypeMultiLineString:
		return 1
	case geom.TypePolygon, geom.TypeMultiPolygon:
		return 2
	}
	d := 0
	for _, m := range shared.Members(g) {
		if x := nominalDim(m); x > d {
			d = x
		}
	}
	return d
}

func judgeBoundary(k *run.K, g geom.Geometry) {
	var b geom.Geometry
	if k.Lib("nopanic", func() { b = g.Boundary() }) {
		return
	}
	shared.ConcreteAgree(k, g, "concrete-entry", []shared.Call{{Method: "Boundary"}, {Method: "PointOnSurface"}, {Method: "Dimension"}, {Method: "IsEmpty"}}, shared.NormBoundary)
	k.Obs("boundary", shared.WKT(b))
	if g.IsGeometryCollection() && g.IsEmpty() {
		// a collection without any control point: the boundary is the empty set; which empty collection
		// represents it is not fixed by the statement (the library returns the receiver, and its own tests
		// pin that), exactly as only emptiness is required of the boundary of an empty Polygon or LineString
		var bb geom.Geometry
		if !k.Lib("nopanic", func() { bb = b.Boundary() }) {
			k.Check("boundary-collection", b.IsGeometryCollection() && b.IsEmpty() && b.DumpCoordinates().Length() == 0 && bb.IsEmpty(),
				"Boundary of the empty collection %s is %s (its boundary %s)", g.AsText(), b.AsText(), bb.AsText())
		}
		k.Count("empty_collection_boundaries", 1)
		return
	}
	if g.IsGeometryCollection() {
		// structural: the collection of the non-empty member boundaries (2D)
		var want []geom.Geometry
		for _, m := range shared.Members(g) {
			mb := m.Boundary().Force2D()
			if !mb.IsEmpty() {
				want = append(want, mb)
			}
		}
		ok := b.IsGeometryCollection()
		if ok {
			got := shared.Members(b)
			ok = len(got) == len(want)
			for i := 0; ok && i < len(got); i++ {
				ok = bytes.Equal(got[i].AsBinary(), want[i].AsBinary())
			}
		}
		k.Check("boundary-collection", ok, "Boundary of collection %s is %s, want the collection of the %d non-empty member boundaries", g.AsText(), b.AsText(), len(want))
		return
	}
	sg := exact.FromGeom(g)
	sb := exact.FromGeom(b)
	// dimension one lower
	wantDim := sg.Dim() - 1
	switch sg.Dim() {
	case -1, 0:
		k.Check("boundary-dim", b.IsEmpty(), "boundary of %s is not empty: %s", g.Type(), b.AsText())
	case 1:
		k.Check("boundary-dim", b.IsEmpty() || (sb.Dim() == 0 && (b.IsMultiPoint() || b.IsPoint())), "boundary of a lineal geometry is %s", b.AsText())
	case 2:
		k.Check("boundary-dim", sb.Dim() == wantDim && (b.IsLineString() || b.IsMultiLineString()), "boundary of an areal geometry is %s", b.AsText())
	}
	// point-set equality on the joint arrangement
	arr := exact.Joint(sg, sb)
	if arr.Err != "" {
		k.Skip("boundary-set")
		return
	}
	okSet := true
	var witness exact.Pt
	chk := func(p exact.Pt) {
		if (sg.Locate(p) == exact.LocB) != sb.In(p) {
			if okSet {
				witness = p
			}
			okSet = false
		}
	}
	for _, v := range arr.V {
		chk(v)
	}
	for _, e := range arr.E {
		chk(exact.Mid(arr.V[e.U], arr.V[e.V]))
	}
	fs, _ := arr.FaceSamples()
	for f := 1; f < arr.NFaces; f++ {
		chk(fs[f])
	}
	locW := -1
	if !okSet {
		locW = sg.Locate(witness)
	}
	k.Check("boundary-set", okSet, "Boundary() %s differs from {p: locate=B} at (%g %g): locate=%d", b.AsText(), witness.FX, witness.FY, locW)
	// every vertex and edge midpoint of the boundary locates as B
	okLoc := true
	for _, p := range sb.Pts {
		if sg.Locate(p) != exact.LocB {
			okLoc = false
		}
	}
	for _, l := range sb.Lines {
		for i := 0; i < len(l); i++ {
			if sg.Locate(l[i]) != exact.LocB {
				okLoc = false
			}
			if i+1 < len(l) && !l[i].Eq(l[i+1]) && sg.Locate(exact.Mid(l[i], l[i+1])) != exact.LocB {
				okLoc = false
			}
		}
	}
	k.Check("boundary-locates", okLoc, "a point of Boundary() %s does not locate as boundary in %s", b.AsText(), g.AsText())
	// boundary of the boundary is empty
	var bb geom.Geometry
	if !k.Lib("nopanic", func() { bb = b.Boundary() }) {
		k.Check("boundary-of-boundary", bb.IsEmpty(), "Boundary(Boundary(g)) = %s", bb.AsText())
	}
}

func highestDimMembers(g geom.Geometry, dim int, out *[]geom.Geometry) {
	if g.IsGeometryCollection() {
		for _, m := range shared.Members(g) {
			highestDimMembers(m, dim, out)
		}
		return
	}
	if !g.IsEmpty() && nominalDim(g) == dim {
		*out = append(*out, g)
	}
}

func judgePOS(k *run.K, g geom.Geometry) {
	var p geom.Point
	if k.Lib("nopanic", func() { p = g.PointOnSurface() }) {
		return
	}
	k.Obs("point_on_surface", p.AsText())
	xy, ok := p.XY()
	k.Check("pos-empty-iff", ok == !g.IsEmpty(), "PointOnSurface empty=%v but geometry empty=%v", !ok, g.IsEmpty())
	if !ok || g.IsEmpty() {
		return
	}
	fin := !math.IsNaN(xy.X) && !math.IsInf(xy.X, 0) && !math.IsNaN(xy.Y) && !math.IsInf(xy.Y, 0)
	if !k.Check("pos-finite", fin && p.CoordinatesType() == geom.DimXY, "PointOnSurface = %s", p.AsText()) {
		return
	}
	pt := exact.PF(xy.X, xy.Y)
	sg := exact.FromGeom(g)
	dim := sg.Dim()
	var top []geom.Geometry
	highestDimMembers(g, dim, &top)
	inside := false
	for _, m := range top {
		sm := exact.FromGeom(m)
		if dim == 2 {
			for _, poly := range sm.Polys {
				if exact.PolyLoc(poly, pt) == exact.LocI {
					inside = true
				}
			}
		} else if sm.In(pt) {
			inside = true
		}
	}
	what := "on a member of the highest dimension"
	if dim == 2 {
		what = "strictly interior to an areal member"
	}
	k.Check("pos-inside", inside, "PointOnSurface %s is not %s of %s", p.AsText(), what, g.AsText())
}

func judgeDim(k *run.K, g geom.Geometry) {
	var d int
	var e bool
	if k.Lib("nopanic", func() { d, e = g.Dimension(), g.IsEmpty() }) {
		return
	}
	k.Check("dimension", d == nominalDim(g), "Dimension()=%d, structure says %d", d, nominalDim(g))
	k.Check("dimension", e == (g.DumpCoordinates().Length() == 0), "IsEmpty()=%v but the geometry has %d control points", e, g.DumpCoordinates().Length())
}

func one(k *run.K, g geom.Geometry, domain string) {
	k.In("domain", domain)
	k.In("g", shared.WKT(g))
	s := exact.FromGeom(g)
	if s.Dim() == 2 || (s.Dim() == 1 && !g.Boundary().IsEmpty()) {
		k.Nontrivial(string(g.AsBinary()))
	}
	judgeBoundary(k, g)
	judgePOS(k, g)
	judgeDim(k, g)
	if k.Index%2 == 0 {
		// the same judgements on the same point set carrying independent Z/M values at every control point
		// (different at coinciding XY: closing points of closed lines and rings, shared end points)
		gz := shared.Payload(k.Rng, g, shared.PayloadCT(k.Rng))
		k.In("g_with_payload", shared.WKT(gz))
		k.Count("payload_variants", 1)
		judgeBoundary(k, gz)
		judgePOS(k, gz)
		judgeDim(k, gz)
	}
}

// narrow builds a rectilinear polygon around the horizontal mid row so that
// the envelope centre row coincides with vertex rows.
func narrow(g *gen.G) geom.Geometry {
	// a comb: teeth of different heights whose notches end exactly on the mid row
	h := 2 * g.R.Range(1, 3)
	w := g.R.Range(2, 4)
	var fs []float64
	x, y := g.Cfg.XY(0, 0)
	add := func(ix, iy int) {
		px, py := g.Cfg.XY(ix, iy)
		fs = append(fs, px, py)
	}
	_ = x
	_ = y
	add(0, 0)
	add(2*w, 0)
	add(2*w, h)
	for t := w - 1; t >= 0; t-- {
		notch := h / 2
		if g.R.Chance(1, 3) {
			notch = h/2 + g.R.Range(-1, 1)
		}
		if notch < 1 {
			notch = 1
		}
		if notch >= h {
			notch = h - 1
		}
		add(2*t+1, h)
		add(2*t+1, notch)
		add(2*t, notch)
		if t > 0 {
			add(2*t, h)
		}
	}
	add(0, 0)
	p := geom.NewPolygon([]geom.LineString{geom.NewLineString(geom.NewSequence(fs, geom.DimXY))})
	return p.AsGeometry()
}

// centreRow builds a rectangle whose envelope-centre row passes through an
// extra shell vertex, with small holes strictly above or below that row (the
// scan-line construction has to move off the vertex row and must take the
// holes' vertex rows into account when it does).
func centreRow(g *gen.G) geom.Geometry {
	r := g.R
	H := 2 * r.Range(2, 4)
	W := r.Range(4, 8)
	pt := func(ix, iy int) (float64, float64) { return g.Cfg.XY(ix, iy) }
	var fs []float64
	add := func(ix, iy int) {
		x, y := pt(ix, iy)
		fs = append(fs, x, y)
	}
	add(0, 0)
	add(W, 0)
	if r.Bool() {
		add(W, H/2)
	}
	add(W, H)
	add(0, H)
	add(0, H/2)
	add(0, 0)
	rings := []geom.LineString{geom.NewLineString(geom.NewSequence(fs, geom.DimXY))}
	for h := r.Range(1, 2); h > 0; h-- {
		// small triangle / diamond strictly above or below the centre row
		lo, hi := 1, H/2-1
		if r.Bool() {
			lo, hi = H/2+1, H-1
		}
		if hi < lo {
			continue
		}
		x0 := r.Range(1, W-2)
		y0 := r.Range(lo, hi)
		var hs []float64
		addH := func(ix, iy int) {
			x, y := pt(ix, iy)
			hs = append(hs, x, y)
		}
		switch r.Intn(3) {
		case 0: // apex up
			if y0+1 > hi {
				continue
			}
			addH(x0, y0)
			addH(x0+1, y0)
			addH(x0, y0+1)
			addH(x0, y0)
		case 1: // apex down
			if y0-1 < lo {
				continue
			}
			addH(x0, y0)
			addH(x0+1, y0)
			addH(x0+1, y0-1)
			addH(x0, y0)
		default: // wide triangle with a middle apex
			if x0+2 > W-1 || y0+1 > hi {
				continue
			}
			addH(x0, y0)
			addH(x0+2, y0)
			addH(x0+1, y0+1)
			addH(x0, y0)
		}
		cand := append(append([]geom.LineString(nil), rings...), geom.NewLineString(geom.NewSequence(hs, geom.DimXY)))
		if exact.ValidGeom(geom.NewPolygon(cand).AsGeometry()).OK {
			rings = cand
		}
	}
	return geom.NewPolygon(rings).AsGeometry()
}

// multiSpan builds a rectangle whose envelope-centre row is cut into several inside spans by holes and/or
// notches of varied widths that straddle that row (six or more boundary crossings on the row; the widest
// gap is often an outside one).
func multiSpan(g *gen.G) geom.Geometry {
	r := g.R
	W, H := 16, 2*r.Range(3, 5)
	pt := func(ix, iy int) (float64, float64) { return g.Cfg.XY(ix, iy) }
	ring := func(ps [][2]int) geom.LineString {
		var fs []float64
		for _, p := range ps {
			x, y := pt(p[0], p[1])
			fs = append(fs, x, y)
		}
		return geom.NewLineString(geom.NewSequence(fs, geom.DimXY))
	}
	// gaps along x: alternating inside/outside widths
	x := 1
	var gaps [][2]int
	for x < W-1 {
		w := []int{1, 1, 2, 3, 6, 9}[r.Intn(6)]
		if x+w > W-1 {
			break
		}
		gaps = append(gaps, [2]int{x, x + w})
		x += w + r.Range(1, 3)
		if len(gaps) == 4 {
			break
		}
	}
	if len(gaps) < 2 {
		gaps = [][2]int{{2, 3}, {5, 14}}
	}
	shell := [][2]int{{0, 0}}
	var holes []geom.LineString
	for _, gp := range gaps {
		if r.Chance(1, 3) { // a notch from the bottom side reaching above the centre row
			shell = append(shell, [2]int{gp[0], 0}, [2]int{gp[0], H/2 + 1}, [2]int{gp[1], H/2 + 1}, [2]int{gp[1], 0})
		} else { // a hole across the centre row
			holes = append(holes, ring([][2]int{{gp[0], H/2 - 1}, {gp[1], H/2 - 1}, {gp[1], H/2 + 1}, {gp[0], H/2 + 1}, {gp[0], H/2 - 1}}))
		}
	}
	shell = append(shell, [2]int{W, 0}, [2]int{W, H}, [2]int{0, H}, [2]int{0, 0})
	rings := append([]geom.LineString{ring(shell)}, holes...)
	p := geom.NewPolygon(rings)
	if !exact.ValidGeom(p.AsGeometry()).OK {
		return geom.NewPolygon(rings[:1]).AsGeometry()
	}
	return p.AsGeometry()
}

func runAll(c *run.Ctx) {
	for i := 0; i < c.N(3000, 60000); i++ {
		c.Case("centre-row", i, func(k *run.K) {
			cfg := gen.NewCfg(k.Rng, gen.DSmall)
			cfg.Side = 8
			g := &gen.G{R: k.Rng, Cfg: cfg}
			x := centreRow(g)
			switch k.Rng.Intn(3) {
			case 1:
				x = geom.NewMultiPolygon([]geom.Polygon{x.MustAsPolygon()}).AsGeometry()
			case 2:
				x = geom.NewGeometryCollection([]geom.Geometry{x}).AsGeometry()
			}
			one(k, x, gen.DSmall)
		})
	}
	for i := 0; i < c.N(2000, 40000); i++ {
		c.Case("multi-span", i, func(k *run.K) {
			cfg := gen.NewCfg(k.Rng, gen.DSmall)
			cfg.Side = 16
			g := &gen.G{R: k.Rng, Cfg: cfg}
			x := multiSpan(g)
			switch k.Rng.Intn(3) {
			case 1:
				x = geom.NewMultiPolygon([]geom.Polygon{x.MustAsPolygon()}).AsGeometry()
			case 2:
				x = geom.NewGeometryCollection([]geom.Geometry{x}).AsGeometry()
			}
			one(k, x, gen.DSmall)
		})
	}
	for i := 0; i < c.N(12000, 300000); i++ {
		c.Case("geom", i, func(k *run.K) {
			domain := shared.PickDomain(k.Rng)
			g := &gen.G{R: k.Rng, Cfg: gen.NewCfg(k.Rng, domain)}
			x := g.Rich(2)
			one(k, x, domain)
		})
	}
	for i := 0; i < c.N(1500, 40000); i++ {
		c.Case("narrow", i, func(k *run.K) {
			cfg := gen.NewCfg(k.Rng, gen.DSmall)
			cfg.Side = 8
			g := &gen.G{R: k.Rng, Cfg: cfg}
			x := narrow(g)
			if !exact.ValidGeom(x).OK {
				k.Skip("pos-inside")
				return
			}
			if k.Rng.Bool() {
				x = geom.NewMultiPolygon([]geom.Polygon{x.MustAsPolygon()}).AsGeometry()
			}
			one(k, x, gen.DSmall)
		})
	}
	// collections nested to depth 3 built mostly from empties of every type (typed empties, Multi* of empty
	// members, childless collections) with at most a few small non-empty members: Dimension / IsEmpty / Boundary /
	// PointOnSurface against the structure
	for i := 0; i < c.N(1500, 20000); i++ {
		c.Case("nested-empties", i, func(k *run.K) {
			r := k.Rng
			var mk func(depth int) geom.Geometry
			leaf := func() geom.Geometry {
				switch r.Intn(12) {
				case 0:
					return geom.Point{}.AsGeometry()
				case 1:
					return geom.LineString{}.AsGeometry()
				case 2:
					return geom.Polygon{}.AsGeometry()
				case 3:
					return geom.MultiPoint{}.AsGeometry()
				case 4:
					return geom.MultiLineString{}.AsGeometry()
				case 5:
					return geom.MultiPolygon{}.AsGeometry()
				case 6:
					return geom.NewMultiPoint([]geom.Point{{}, {}}).AsGeometry()
				case 7:
					return geom.NewMultiLineString([]geom.LineString{{}}).AsGeometry()
				case 8:
					return geom.NewMultiPolygon([]geom.Polygon{{}, {}}).AsGeometry()
				case 9:
					return geom.NewPointXY(float64(r.Range(0, 5)), float64(r.Range(0, 5))).AsGeometry()
				case 10:
					x, y := float64(r.Range(0, 5)), float64(r.Range(0, 5))
					return geom.NewLineStringXY(x, y, x+1, y+2).AsGeometry()
				default:
					return geom.GeometryCollection{}.AsGeometry()
				}
			}
			mk = func(depth int) geom.Geometry {
				var ms []geom.Geometry
				for n := r.Range(0, 3); n > 0; n-- {
					if depth > 0 && r.Chance(2, 5) {
						ms = append(ms, mk(depth-1))
					} else {
						ms = append(ms, leaf())
					}
				}
				return geom.NewGeometryCollection(ms).AsGeometry()
			}
			x := mk(3)
			k.Count("nested_empty_collections", 1)
			one(k, x, gen.DSmall)
		})
	}
	// MultiLineStrings sharing endpoints 2,3,4 ways (mod-2 rule)
	for i := 0; i < c.N(1500, 40000); i++ {
		c.Case("junction", i, func(k *run.K) {
			g := &gen.G{R: k.Rng, Cfg: gen.NewCfg(k.Rng, gen.DSmall)}
			var x geom.Geometry
			for t := 0; t < 20; t++ {
				x = g.MultiLineString().AsGeometry()
				if x.MustAsMultiLineString().NumLineStrings() >= 2 {
					break
				}
			}
			one(k, x, gen.DSmall)
		})
	}
}
