// Package c17 monitors Densify, Simplify, InterpolatePoint,
// InterpolateEvenlySpacedPoints, SnapToGrid, Reverse and ForceCW/CCW.
package c17

import (
	"fmt"
	"math"
	"math/big"

	"github.com/peterstace/simplefeatures/geom"

	"verif/exact"
	"verif/gen"
	"verif/model"
	"verif/props/shared"
	"verif/run"
)

func init() {
	run.Register(&run.Property{
		ID:    "C17",
		Title: "Densify, Simplify, Interpolate, SnapToGrid, Reverse, ForceCW/CCW keep contracts",
		Rule: "[added in rounds 9-11: orient-collinear: rings with extra collinear/repeated control points from every start vertex; interp-zm judged against the vertex cluster at that arc length] cases = valid lineal/areal geometries (all coordinate types, repeated consecutive vertices at start/middle/end, closed rings, zero-length leading segments) on the integer lattice and in general-position floats with d in diameter x {1e-3..10}, t in [0, diameter], f over [-1,2] incl. 0, 1, the cumulative-length breakpoints and their neighbours, n in 0..50; and SnapToGrid sweeps of decimal places -320..320 against ordinates {0, +-1, +-0.5, +-1e-300, +-1e300, +-(2^52+0.5), ...}. " +
			"non-trivial = geometry with >= 3 vertices, or a snap evaluation with a non-zero ordinate; distinct by (WKB, parameters)",
		Assumptions: []string{"tolerances 1e-9*M for positions, (1+1e-12) relative for gap lengths and half-steps, fixed in DESIGN.md",
			"Simplify: some embedding of the result as a subsequence must satisfy the distance bound (vertex lists may contain duplicates)"},
		MinNontrivial:    500,
		RequiredMonitors: []string{"densify-subsequence", "densify-on-segment", "densify-gap", "simplify-subsequence", "simplify-distance", "simplify-valid", "interp-finite", "interp-position", "interp-zm", "evenly-spaced", "snap-odd", "snap-bound", "snap-finite", "snap-idem", "reverse-involution", "reverse-valid", "orient-holds", "orient-idem", "concrete-entry"},
		Run:              runAll,
	})
}

func treeOf(g geom.Geometry) model.Tree { t, _ := model.FromGeom(g); return t }

func maxAbs(t model.Tree) float64 {
	m := 1.0
	t.Map(func(c []float64, _ geom.CoordinatesType) { m = math.Max(m, math.Max(math.Abs(c[0]), math.Abs(c[1]))) })
	return m
}

func diameter(g geom.Geometry) float64 {
	a, b, ok := g.Envelope().MinMaxXYs()
	if !ok {
		return 0
	}
	return math.Hypot(b.X-a.X, b.Y-a.Y)
}

// curves lists the LineString nodes (incl. polygon rings) pairwise.
func curves(a, b model.Tree, f func(x, y model.Tree) bool) bool {
	if a.Type != b.Type {
		return false
	}
	if a.Type == geom.TypeLineString {
		return f(a, b)
	}
	if len(a.Kids) != len(b.Kids) {
		return false
	}
	if a.Type == geom.TypePoint && !model.Equal(a, b) {
		return false
	}
	for i := range a.Kids {
		if !curves(a.Kids[i], b.Kids[i], f) {
			return false
		}
	}
	return true
}

func pt(c []float64) exact.Pt { return exact.PF(c[0], c[1]) }

// ---------- Densify ----------

func densify(k *run.K, g geom.Geometry, t model.Tree, M float64) {
	diam := diameter(g)
	if diam == 0 {
		return
	}
	d := diam * []float64{1e-2, 0.03, 0.1, 0.3, 0.5, 1, 3, 10}[k.Rng.Intn(8)]
	if k.Rng.Chance(1, 20) {
		d = diam * 1e-3
	}
	var r geom.Geometry
	if k.Lib("nopanic", func() { r = g.Densify(d) }) {
		return
	}
	shared.ConcreteAgree(k, g, "concrete-entry", []shared.Call{{Method: "Densify", Args: []any{d}}}, nil)
	rt := treeOf(r)
	k.Check("densify-subsequence", rt.CT == t.CT && rt.Type == t.Type, "Densify(%g) changed type/coordinate type: %v/%v -> %v/%v", d, t.Type, t.CT, rt.Type, rt.CT)
	tol := 1e-9 * M
	okSub, okSeg, okGap := true, true, true
	why := ""
	structural := curves(t, rt, func(b, a model.Tree) bool {
		dd := b.CT.Dimension()
		nb, na := len(b.Coords)/dd, len(a.Coords)/dd
		if nb == 0 {
			if na != 0 {
				okSub = false
			}
			return true
		}
		j := 0
		for i := 0; i < nb; i++ {
			orig := b.Coords[i*dd : i*dd+dd]
			found := false
			for ; j < na; j++ {
				cur := a.Coords[j*dd : j*dd+dd]
				same := true
				for x := 0; x < dd; x++ {
					if math.Float64bits(cur[x]) != math.Float64bits(orig[x]) && cur[x] != orig[x] {
						same = false
					}
				}
				if same {
					found = true
					j++
					break
				}
				if i == 0 {
					okSub, why = false, "result does not start with the original first vertex"
					return true
				}
				prev := b.Coords[(i-1)*dd : (i-1)*dd+dd]
				// on the original segment and between its ends
				dsq := exact.DistSqPtSeg(pt(cur), pt(prev), pt(orig))
				if !(exact.Sqrt(dsq) <= tol) {
					okSeg, why = false, fmt.Sprintf("inserted point (%v %v) is %.3g away from its segment", cur[0], cur[1], exact.Sqrt(dsq))
				}
			}
			if !found {
				okSub, why = false, fmt.Sprintf("original vertex %d (%v %v) missing or out of order", i, orig[0], orig[1])
				return true
			}
		}
		if j != na {
			okSub, why = false, "extra vertices after the last original vertex"
		}
		for i := 0; i+1 < na; i++ {
			p, q := a.Coords[i*dd:i*dd+2], a.Coords[(i+1)*dd:(i+1)*dd+2]
			if gap := math.Hypot(q[0]-p[0], q[1]-p[1]); !(gap <= d*(1+1e-12)+tol) {
				okGap, why = false, fmt.Sprintf("gap %.17g exceeds %.17g", gap, d)
			}
		}
		return true
	})
	k.Check("densify-subsequence", structural && okSub, "Densify(%g): %s\n before %s\n after %s", d, why, t, clipTree(rt))
	k.Check("densify-on-segment", okSeg, "Densify(%g): %s", d, why)
	k.Check("densify-gap", okGap, "Densify(%g): %s", d, why)
}

func clipTree(t model.Tree) string {
	s := t.String()
	if len(s) > 1200 {
		s = s[:1200] + "…"
	}
	return s
}

// ---------- Simplify ----------

// lineDist: distance from p to the infinite line through a,b (point distance when a==b), exact then rounded.
func lineDist(p, a, b exact.Pt) float64 {
	if a.Eq(b) {
		return exact.Sqrt(exact.DistSq(p, a))
	}
	dx, dy := new(big.Rat).Sub(b.X, a.X), new(big.Rat).Sub(b.Y, a.Y)
	cr := new(big.Rat).Sub(new(big.Rat).Mul(dx, new(big.Rat).Sub(p.Y, a.Y)), new(big.Rat).Mul(dy, new(big.Rat).Sub(p.X, a.X)))
	l2 := new(big.Rat).Add(new(big.Rat).Mul(dx, dx), new(big.Rat).Mul(dy, dy))
	return exact.Sqrt(new(big.Rat).Quo(new(big.Rat).Mul(cr, cr), l2))
}

// embeds: exists an embedding of res into orig (first->first, last->last,
// increasing) such that all dropped vertices are within lim of the bracketing line.
func embeds(orig, res [][]float64, lim float64) (sub bool, dist bool) {
	n, m := len(orig), len(res)
	if m < 2 || n < 2 {
		return m == n, m == n
	}
	same := func(a, b []float64) bool {
		for i := range a {
			if a[i] != b[i] && math.Float64bits(a[i]) != math.Float64bits(b[i]) {
				return false
			}
		}
		return true
	}
	if !same(orig[0], res[0]) || !same(orig[n-1], res[m-1]) {
		return false, false
	}
	// plain subsequence?
	{
		j := 0
		for i := 0; i < n && j < m; i++ {
			if same(orig[i], res[j]) {
				j++
			}
		}
		if j != m {
			return false, false
		}
	}
	pts := make([]exact.Pt, n)
	for i := range pts {
		pts[i] = pt(orig[i])
	}
	okSpan := func(s, e int) bool {
		for i := s + 1; i < e; i++ {
			if !(lineDist(pts[i], pts[s], pts[e]) <= lim) {
				return false
			}
		}
		return true
	}
	// reach[j][i]: res[0..j] embedded with res[j] at orig[i]
	reach := make([][]bool, m)
	for j := range reach {
		reach[j] = make([]bool, n)
	}
	reach[0][0] = true
	for j := 1; j < m; j++ {
		for i := j; i < n; i++ {
			if !same(orig[i], res[j]) {
				continue
			}
			for p := j - 1; p < i; p++ {
				if reach[j-1][p] && okSpan(p, i) {
					reach[j][i] = true
					break
				}
			}
		}
	}
	return true, reach[m-1][n-1]
}

func split(c []float64, d int) [][]float64 {
	var out [][]float64
	for i := 0; i+d <= len(c); i += d {
		out = append(out, c[i:i+d])
	}
	return out
}

func simplify(k *run.K, g geom.Geometry, t model.Tree, M float64, lattice bool) {
	diam := diameter(g)
	th := diam * []float64{0, 0.01, 0.05, 0.1, 0.2, 0.35, 0.5, 1}[k.Rng.Intn(8)]
	var r geom.Geometry
	var err error
	if k.Lib("nopanic", func() { r, err = g.Simplify(th) }) {
		return
	}
	shared.ConcreteAgree(k, g, "concrete-entry", []shared.Call{{Method: "Simplify", Args: []any{th}}}, nil)
	if err != nil {
		k.Check("simplify-valid", true, "")
		k.Count("simplify_errors", 1)
		// the unvalidated result must still satisfy the vertex contract
		if k.Lib("nopanic", func() { r, err = g.Simplify(th, geom.NoValidate{}) }) || err != nil {
			return
		}
	} else {
		var verr error
		k.Lib("nopanic", func() { verr = r.Validate() })
		okV := verr == nil
		why := fmt.Sprint(verr)
		if okV && lattice {
			if v := exact.ValidGeom(r); !v.OK && v.Inconsistent == "" {
				okV, why = false, v.Rule
			}
		}
		k.Check("simplify-valid", okV, "Simplify(%g) returned an invalid geometry without an error: %s\n %s", th, why, r.AsText())
	}
	rt := treeOf(r)
	lim := th + 1e-9*M
	okSub, okDist := true, true
	why := ""
	var check func(b, a model.Tree) bool
	check = func(b, a model.Tree) bool {
		if a.CT != b.CT || a.Type != b.Type {
			why = fmt.Sprintf("type/coordinate type %v/%v -> %v/%v", b.Type, b.CT, a.Type, a.CT)
			return false
		}
		switch b.Type {
		case geom.TypePoint:
			return model.Equal(a, b)
		case geom.TypeLineString:
			d := b.CT.Dimension()
			ob, oa := split(b.Coords, d), split(a.Coords, d)
			if len(oa) == 0 {
				// documented collapse: all vertices within the threshold of the (coinciding) end points
				if len(ob) == 0 {
					return true
				}
				p0 := pt(ob[0])
				for _, v := range ob {
					if !(exact.Sqrt(exact.DistSq(pt(v), p0)) <= lim) {
						// an open curve never collapses; a closed one only if everything is near its start
						okDist, why = false, fmt.Sprintf("curve collapsed to empty although vertex (%v %v) is farther than the threshold from the start", v[0], v[1])
					}
				}
				return true
			}
			s, dd := embeds(ob, oa, lim)
			if !s {
				okSub, why = false, fmt.Sprintf("result is not a subsequence with the same end points: %v -> %v", ob, oa)
			} else if !dd {
				okDist, why = false, fmt.Sprintf("a dropped vertex is farther than %g from the line through its bracketing retained vertices: %v -> %v", th, ob, oa)
			}
			return true
		case geom.TypePolygon:
			if len(a.Kids) == 0 {
				return true // collapsed shell (judged by area below would need more; accept the documented collapse)
			}
			if len(b.Kids) == 0 {
				return false
			}
			if !check(b.Kids[0], a.Kids[0]) {
				return false
			}
			// holes: in order, collapsed ones omitted
			j := 1
			for i := 1; i < len(b.Kids) && j < len(a.Kids); i++ {
				d := b.CT.Dimension()
				if s, _ := embeds(split(b.Kids[i].Coords, d), split(a.Kids[j].Coords, d), math.Inf(1)); s {
					if !check(b.Kids[i], a.Kids[j]) {
						return false
					}
					j++
				}
			}
			if j != len(a.Kids) {
				okSub, why = false, "a result hole does not correspond to an input hole"
			}
			return true
		case geom.TypeMultiPolygon, geom.TypeMultiLineString, geom.TypeMultiPoint, geom.TypeGeometryCollection:
			// members may be dropped when they collapse (Multi*); match in order
			j := 0
			for i := 0; i < len(b.Kids) && j < len(a.Kids); i++ {
				save1, save2, saveWhy := okSub, okDist, why
				if a.Kids[j].Type == b.Kids[i].Type && check(b.Kids[i], a.Kids[j]) && okSub && okDist {
					j++
					continue
				}
				if len(a.Kids) == len(b.Kids) {
					return false
				}
				okSub, okDist, why = save1, save2, saveWhy
			}
			if j != len(a.Kids) {
				okSub = false
				if why == "" {
					why = "result members do not correspond to input members"
				}
			}
			return true
		}
		return true
	}
	structural := check(t, rt)
	k.Check("simplify-subsequence", structural && okSub, "Simplify(%g): %s\n before %s\n after %s", th, why, t, rt)
	k.Check("simplify-distance", okDist, "Simplify(%g): %s", th, why)
}

// ---------- Interpolation ----------

type arc struct {
	pts  [][]float64
	cum  []*big.Float // cumulative length at each vertex
	tot  *big.Float
	d    int
	zero []bool // segment i has zero length
}

func newArc(c []float64, d int) arc {
	a := arc{pts: split(c, d), d: d}
	acc := new(big.Float).SetPrec(200)
	a.cum = append(a.cum, new(big.Float).SetPrec(200))
	for i := 0; i+1 < len(a.pts); i++ {
		l := exact.SqrtBig(exact.DistSq(pt(a.pts[i]), pt(a.pts[i+1])))
		a.zero = append(a.zero, l.Sign() == 0)
		acc = new(big.Float).SetPrec(200).Add(acc, l)
		a.cum = append(a.cum, acc)
	}
	a.tot = acc
	return a
}

// at returns the exact position (as float64s) at fraction f in [0,1], the
// segment index, and the in-segment parameter.
func (a arc) at(f float64) (x, y float64, seg int, tpar float64) {
	if a.tot.Sign() == 0 {
		return a.pts[0][0], a.pts[0][1], 0, 0
	}
	target := new(big.Float).SetPrec(200).Mul(new(big.Float).SetPrec(200).SetFloat64(f), a.tot)
	seg = len(a.pts) - 2
	for i := 0; i+1 < len(a.pts); i++ {
		if target.Cmp(a.cum[i+1]) <= 0 && !a.zero[i] {
			seg = i
			break
		}
	}
	for seg > 0 && a.zero[seg] {
		seg--
	}
	segLen := new(big.Float).SetPrec(200).Sub(a.cum[seg+1], a.cum[seg])
	tp := new(big.Float).SetPrec(200).Quo(new(big.Float).SetPrec(200).Sub(target, a.cum[seg]), segLen)
	tpar, _ = tp.Float64()
	p, q := a.pts[seg], a.pts[seg+1]
	lerp := func(u, v float64) float64 {
		fu, fv := new(big.Float).SetPrec(200).SetFloat64(u), new(big.Float).SetPrec(200).SetFloat64(v)
		r := new(big.Float).SetPrec(200).Add(fu, new(big.Float).SetPrec(200).Mul(tp, new(big.Float).SetPrec(200).Sub(fv, fu)))
		o, _ := r.Float64()
		return o
	}
	return lerp(p[0], q[0]), lerp(p[1], q[1]), seg, tpar
}

func interpolate(k *run.K, ls geom.LineString, t model.Tree, M float64) {
	d := t.CT.Dimension()
	a := newArc(t.Coords, d)
	tol := 1e-9 * M
	fs := []float64{-1, 0, 1, 2, 0.5, 0.25, 1e-300, 1 - 1e-16, math.Nextafter(0, 1), k.Rng.Float64(), k.Rng.Float64()}
	if a.tot.Sign() > 0 {
		for i := 1; i < len(a.cum); i++ {
			b, _ := new(big.Float).Quo(a.cum[i], a.tot).Float64()
			fs = append(fs, b, math.Nextafter(b, 2), math.Nextafter(b, -1))
		}
	}
	zeroRun := false
	for _, z := range a.zero {
		if z {
			zeroRun = true
		}
	}
	for _, f := range fs {
		var p geom.Point
		if k.Lib("nopanic", func() { p = ls.InterpolatePoint(f) }) {
			continue
		}
		c, ok := p.Coordinates()
		fin := ok && !math.IsNaN(c.X) && !math.IsInf(c.X, 0) && !math.IsNaN(c.Y) && !math.IsInf(c.Y, 0)
		class := ""
		if zeroRun {
			class = "zero-length-segment"
		}
		if !k.CheckClass("interp-finite", class, fin && p.CoordinatesType() == t.CT, "InterpolatePoint(%v) = %s on %s", f, p.AsText(), t) {
			continue
		}
		cf := math.Max(0, math.Min(1, f))
		x, y, seg, tp := a.at(cf)
		k.Check("interp-position", math.Hypot(c.X-x, c.Y-y) <= tol, "InterpolatePoint(%v) = (%v %v), exact arc-length position (%v %v) on %s", f, c.X, c.Y, x, y, t)
		if t.CT != geom.DimXY {
			// Z/M: interpolated within the located segment; with zero-length runs only the range is judged
			p0, p1 := a.pts[seg], a.pts[seg+1]
			okZM := true
			j := 2
			vals := []float64{}
			if t.CT.Is3D() {
				vals = append(vals, c.Z)
			}
			if t.CT.IsMeasured() {
				vals = append(vals, c.M)
			}
			for _, v := range vals {
				lo, hi := math.Min(p0[j], p1[j]), math.Max(p0[j], p1[j])
				want := p0[j] + tp*(p1[j]-p0[j])
				span := math.Max(math.Abs(p0[j]), math.Abs(p1[j])) + 1
				if tp < 1e-9 || tp > 1-1e-9 {
					// at a vertex: any value the curve takes at that arc length is acceptable, i.e. the range
					// over the vertex and the vertices joined to it through zero-length segments (plus the
					// sliver of the adjacent segments that 1e-9 of a segment can reach)
					vi := seg
					if tp > 0.5 {
						vi = seg + 1
					}
					lo2, hi2 := vi, vi
					for lo2 > 0 && a.zero[lo2-1] {
						lo2--
					}
					for hi2 < len(a.pts)-1 && a.zero[hi2] {
						hi2++
					}
					glo, ghi := math.Inf(1), math.Inf(-1)
					gspan := span
					for q := lo2; q <= hi2; q++ {
						glo, ghi = math.Min(glo, a.pts[q][j]), math.Max(ghi, a.pts[q][j])
					}
					for _, q := range []int{lo2 - 1, hi2 + 1} {
						if q >= 0 && q < len(a.pts) {
							gspan = math.Max(gspan, math.Abs(a.pts[q][j])+1)
						}
					}
					if !(v >= glo-2e-9*gspan && v <= ghi+2e-9*gspan) {
						okZM = false
					}
					k.Count("interp_zm_vertex_cluster_checks", 1)
				} else if !(math.Abs(v-want) <= 1e-6*span && v >= lo-1e-9*span && v <= hi+1e-9*span) {
					okZM = false
				}
				j++
			}
			k.Check("interp-zm", okZM, "InterpolatePoint(%v) = %s: Z/M not interpolated between %v and %v (t=%v)", f, p.AsText(), p0, p1, tp)
		}
	}
	// evenly spaced
	for _, n := range []int{-3, 0, 1, 2, 3, k.Rng.Range(4, 50)} {
		var mp geom.MultiPoint
		if k.Lib("nopanic", func() { mp = ls.InterpolateEvenlySpacedPoints(n) }) {
			continue
		}
		want := n
		if n < 0 {
			want = 0
		}
		ok := mp.NumPoints() == want && mp.CoordinatesType() == t.CT
		why := fmt.Sprintf("%d points", mp.NumPoints())
		for i := 0; ok && i < want; i++ {
			f := 0.5
			if want > 1 {
				f = float64(i) / float64(want-1)
			}
			x, y, _, _ := a.at(f)
			c, okc := mp.PointN(i).Coordinates()
			if !okc || !(math.Hypot(c.X-x, c.Y-y) <= tol) {
				ok, why = false, fmt.Sprintf("point %d = %s, exact position at fraction %v is (%v %v)", i, mp.PointN(i).AsText(), f, x, y)
			}
		}
		class := ""
		if zeroRun {
			class = "zero-length-segment"
		}
		k.CheckClass("evenly-spaced", class, ok, "InterpolateEvenlySpacedPoints(%d): %s on %s", n, why, t)
	}
}

// ---------- SnapToGrid ----------

var snapVals = []float64{0, 1, -1, 0.5, -0.5, 1.5, 2.5, -2.5, 0.05, 0.15, 123.456, -987.654321, 1e-300, -1e-300, 1e300, -1e300, 5e-324, -5e-324,
	1.7976931348623157e308, -1.7976931348623157e308, 4503599627370496.5, -4503599627370496.5, 4503599627370497, 0.1, 0.7, 1e15 + 0.5, 1e-7, 299792458, -0.000123}

func snapOne(g geom.Geometry) (geom.XY, bool) { return g.MustAsPoint().XY() }

func snap(k *run.K, dp int) {
	for _, v := range snapVals {
		in := geom.NewPointXY(v, -v).AsGeometry()
		var out geom.Geometry
		if k.Lib("nopanic", func() { out = in.SnapToGrid(dp) }) {
			continue
		}
		xy, ok := snapOne(out)
		if !ok {
			k.Check("snap-finite", false, "SnapToGrid(%d) of POINT(%v %v) is empty", dp, v, -v)
			continue
		}
		k.Count("snap_evaluations", 1)
		fin := !math.IsNaN(xy.X) && !math.IsInf(xy.X, 0) && !math.IsNaN(xy.Y) && !math.IsInf(xy.Y, 0)
		class := ""
		switch {
		case dp > 308:
			class = "decimal-places-beyond-float-range"
		case v < 0 || -v < 0:
			class = "overflow-of-negative-ordinate"
		}
		if !k.CheckClass("snap-finite", class, fin, "SnapToGrid(%d) of (%v %v) = (%v %v)", dp, v, -v, xy.X, xy.Y) {
			continue
		}
		k.Check("snap-odd", xy.Y == -xy.X || (xy.X == 0 && xy.Y == 0), "SnapToGrid(%d) not odd: snap(%v)=%v snap(%v)=%v", dp, v, xy.X, -v, xy.Y)
		// |delta| <= half a grid step (+ rounding)
		step := math.Pow(10, -float64(dp))
		ulp := math.Abs(math.Nextafter(v, math.Inf(1)) - v)
		bound := 0.5*step*(1+1e-12) + ulp
		if math.IsInf(step, 0) {
			bound = math.Inf(1)
		}
		k.Check("snap-bound", math.Abs(xy.X-v) <= bound, "SnapToGrid(%d) moved %v to %v (more than half a grid step %g)", dp, v, xy.X, step)
		// idempotent where the grid is coarser than float resolution
		if math.Abs(v)*math.Pow(10, float64(dp)) < math.Ldexp(1, 40) {
			var again geom.Geometry
			if !k.Lib("nopanic", func() { again = out.SnapToGrid(dp) }) {
				a, _ := snapOne(again)
				k.Check("snap-idem", a.X == xy.X && a.Y == xy.Y, "SnapToGrid(%d) not idempotent on %v: %v then %v", dp, v, xy.X, a.X)
			}
		}
	}
}

// ---------- Reverse / orientation ----------

func reverseAndOrient(k *run.K, g geom.Geometry, t model.Tree, valid bool) {
	var r, rr geom.Geometry
	if k.Lib("nopanic", func() { r = g.Reverse(); rr = r.Reverse() }) {
		return
	}
	k.Check("reverse-involution", model.Equal(treeOf(rr), t), "Reverse(Reverse(g)) != g: %s", model.Diff(treeOf(rr), t))
	shared.ConcreteAgree(k, g, "concrete-entry", []shared.Call{{Method: "Reverse"}, {Method: "ForceCW"}, {Method: "ForceCCW"}, {Method: "IsCW"}, {Method: "IsCCW"},
		{Method: "SnapToGrid", Args: []any{k.Rng.Range(-2, 3)}}}, nil)
	shared.ConcreteAgree(k, r, "concrete-entry", []shared.Call{{Method: "ForceCW"}, {Method: "ForceCCW"}, {Method: "IsCW"}, {Method: "IsCCW"}}, nil)
	same := curves(t, treeOf(r), func(b, a model.Tree) bool {
		d := b.CT.Dimension()
		ob, oa := split(b.Coords, d), split(a.Coords, d)
		if len(ob) != len(oa) {
			return false
		}
		for i := range ob {
			for x := 0; x < d; x++ {
				if ob[i][x] != oa[len(oa)-1-i][x] {
					return false
				}
			}
		}
		return true
	})
	k.Check("reverse-involution", same, "Reverse(g) is not the vertex-wise reversal of every curve: %s -> %s", t, treeOf(r))
	if valid {
		var verr error
		k.Lib("nopanic", func() { verr = r.Validate() })
		k.Check("reverse-valid", verr == nil && exact.ValidGeom(r).OK, "Reverse of a valid geometry is invalid: %v", verr)
	}
	if !valid {
		return
	}
	for _, w := range []string{"CW", "CCW"} {
		var o, oo geom.Geometry
		var holds bool
		if k.Lib("nopanic", func() {
			if w == "CW" {
				o = g.ForceCW()
				oo = o.ForceCW()
				holds = o.IsCW()
			} else {
				o = g.ForceCCW()
				oo = o.ForceCCW()
				holds = o.IsCCW()
			}
		}) {
			continue
		}
		k.Check("orient-holds", holds, "Is%s() is false after Force%s(): %s", w, w, o.AsText())
		k.Check("orient-idem", model.Equal(treeOf(oo), treeOf(o)), "Force%s not idempotent", w)
		// same point set: every ring either unchanged or reversed
		okSet := curves(t, treeOf(o), func(b, a model.Tree) bool {
			if model.Equal(a, b) {
				return true
			}
			d := b.CT.Dimension()
			ob, oa := split(b.Coords, d), split(a.Coords, d)
			if len(ob) != len(oa) {
				return false
			}
			for i := range ob {
				for x := 0; x < d; x++ {
					if ob[i][x] != oa[len(oa)-1-i][x] {
						return false
					}
				}
			}
			return true
		})
		k.Check("orient-holds", okSet, "Force%s changed more than ring directions: %s -> %s", w, t, treeOf(o))
		// exact orientation of every ring after forcing
		okDir := true
		var walk func(n model.Tree)
		walk = func(n model.Tree) {
			if n.Type == geom.TypePolygon {
				for i, ring := range n.Kids {
					d := ring.CT.Dimension()
					var ps []exact.Pt
					for _, c := range split(ring.Coords, d) {
						ps = append(ps, pt(c))
					}
					s := exact.RingArea2(ps).Sign()
					wantCCW := (w == "CCW") == (i == 0)
					if (s > 0) != wantCCW && s != 0 {
						okDir = false
					}
				}
			}
			for _, c := range n.Kids {
				walk(c)
			}
		}
		walk(treeOf(o))
		k.Check("orient-holds", okDir, "Force%s: a ring has the wrong exact orientation: %s", w, o.AsText())
	}
}

// withRepeats inserts repeated consecutive vertices at start/middle/end of lines.
func withRepeats(r *run.Rng, g geom.Geometry) geom.Geometry {
	dup := func(s geom.Sequence) geom.Sequence {
		n := s.Length()
		if n == 0 {
			return s
		}
		ct := s.CoordinatesType()
		var fs []float64
		pos := []int{0, n / 2, n - 1}[r.Intn(3)]
		for i := 0; i < n; i++ {
			c := s.Get(i)
			reps := 1
			if i == pos {
				reps = 2 + r.Intn(2)
			}
			for ; reps > 0; reps-- {
				fs = append(fs, c.X, c.Y)
				if ct.Is3D() {
					fs = append(fs, c.Z)
				}
				if ct.IsMeasured() {
					fs = append(fs, c.M)
				}
			}
		}
		return geom.NewSequence(fs, ct)
	}
	return shared.Rebuild(g, dup, dup)
}

func geomCase(k *run.K) {
	domain := shared.PickDomain(k.Rng)
	gg := &gen.G{R: k.Rng, Cfg: gen.NewCfg(k.Rng, domain)}
	typ := []geom.GeometryType{geom.TypeLineString, geom.TypeMultiLineString, geom.TypePolygon, geom.TypeMultiPolygon, geom.TypeGeometryCollection, geom.TypeLineString, geom.TypePolygon}[k.Rng.Intn(7)]
	x := gg.Typed(typ, 1)
	if k.Rng.Chance(1, 3) {
		x = withRepeats(k.Rng, x)
	}
	t := treeOf(x)
	t = model.SetZM(k.Rng, t, model.CTypes[k.Rng.Intn(4)], model.ValueOpts{Simple: true}, false)
	g := model.ToGeom(t)
	valid := exact.ValidGeom(g).OK
	if !valid {
		k.Skip("densify-subsequence")
		return
	}
	k.In("domain", domain)
	k.In("g", shared.WKT(g))
	M := maxAbs(t)
	if g.DumpCoordinates().Length() >= 3 {
		k.Nontrivial(string(g.AsBinary()))
	}
	densify(k, g, t, M)
	simplify(k, g, t, M, domain != gen.DGP)
	reverseAndOrient(k, g, t, valid)
	// interpolation on every LineString / ring found
	var lines []model.Tree
	var walk func(n model.Tree)
	walk = func(n model.Tree) {
		if n.Type == geom.TypeLineString && len(n.Coords) > 0 {
			lines = append(lines, n)
		}
		for _, c := range n.Kids {
			walk(c)
		}
	}
	walk(t)
	for i, l := range lines {
		if i >= 2 {
			break
		}
		interpolate(k, model.ToGeom(l).MustAsLineString(), l, M)
	}
}

func runAll(c *run.Ctx) {
	for i := 0; i < c.N(6000, 150000); i++ {
		c.Case("geom", i, geomCase)
	}
	// rings with extra collinear (and repeated) control points on their edges, started at every vertex in
	// both directions, as a shell and as a hole: orientation must follow the signed area, not a local turn
	for i := 0; i < c.N(400, 4000); i++ {
		c.Case("orient-collinear", i, func(k *run.K) {
			r := k.Rng
			w, h := float64(r.Range(2, 6)), float64(r.Range(2, 6))
			corners := [][2]float64{{0, 0}, {w, 0}, {w, h}, {0, h}}
			if r.Chance(1, 3) {
				corners = [][2]float64{{0, 0}, {w, 0}, {0, h}}
			}
			var ring [][2]float64
			for ci, a := range corners {
				b := corners[(ci+1)%len(corners)]
				ring = append(ring, a)
				mm := r.Range(0, 2)
				for j := 0; j < mm; j++ {
					t := float64(j+1) / float64(mm+1)
					ring = append(ring, [2]float64{a[0] + t*(b[0]-a[0]), a[1] + t*(b[1]-a[1])})
					if r.Chance(1, 4) {
						ring = append(ring, ring[len(ring)-1])
					}
				}
			}
			start := r.Intn(len(ring))
			rot := append(append([][2]float64(nil), ring[start:]...), ring[:start]...)
			if r.Bool() {
				for a, b := 0, len(rot)-1; a < b; a, b = a+1, b-1 {
					rot[a], rot[b] = rot[b], rot[a]
				}
			}
			ox, oy := float64(r.Range(-3, 3)), float64(r.Range(-3, 3))
			var fs []float64
			for _, p := range rot {
				fs = append(fs, p[0]+ox+10, p[1]+oy+10)
			}
			fs = append(fs, fs[0], fs[1])
			inner := geom.NewLineStringXY(fs...)
			var g geom.Geometry
			if r.Bool() {
				g = geom.NewPolygon([]geom.LineString{inner}).AsGeometry()
			} else {
				shell := geom.NewLineStringXY(0, 0, 40, 0, 40, 40, 0, 40, 0, 0)
				if r.Bool() {
					shell = shell.Reverse()
				}
				g = geom.NewPolygon([]geom.LineString{shell, inner}).AsGeometry()
			}
			switch r.Intn(3) {
			case 1:
				g = geom.NewMultiPolygon([]geom.Polygon{g.MustAsPolygon()}).AsGeometry()
			case 2:
				g = geom.NewGeometryCollection([]geom.Geometry{g}).AsGeometry()
			}
			k.In("g", g.AsText())
			k.Nontrivial(g.AsText())
			valid := exact.ValidGeom(g).OK
			if !valid {
				k.Count("orient_collinear_invalid_skipped", 1)
				return
			}
			reverseAndOrient(k, g, treeOf(g), true)
		})
	}
	// lines whose first / last segment has zero length
	for i := 0; i < c.N(600, 10000); i++ {
		c.Case("zero-length", i, func(k *run.K) {
			gg := &gen.G{R: k.Rng, Cfg: gen.NewCfg(k.Rng, gen.DSmall)}
			l := gg.LineString()
			s := l.Coordinates()
			var fs []float64
			n := s.Length()
			for j := 0; j < n; j++ {
				p := s.GetXY(j)
				reps := 1
				if (j == 0 && k.Index%3 != 2) || (j == n-1 && k.Index%3 != 0) {
					reps = 2
				}
				for ; reps > 0; reps-- {
					fs = append(fs, p.X, p.Y)
				}
			}
			t := treeOf(geom.NewLineString(geom.NewSequence(fs, geom.DimXY)).AsGeometry())
			t = model.SetZM(k.Rng, t, model.CTypes[k.Rng.Intn(4)], model.ValueOpts{Simple: true}, false)
			ls := model.ToGeom(t).MustAsLineString()
			k.In("g", shared.WKT(ls.AsGeometry()))
			k.Nontrivial(string(ls.AsBinary()))
			interpolate(k, ls, t, maxAbs(t))
		})
	}
	// Simplify on multi-geometries whose members collapse at different thresholds (tiny members
	// next to spiky ones): the result must be valid or an error, whatever survives
	for i := 0; i < c.N(1500, 30000); i++ {
		c.Case("simplify-collapse", i, func(k *run.K) {
			r := k.Rng
			var polys []geom.Polygon
			n := r.Range(2, 4)
			for j := 0; j < n; j++ {
				ox, oy := float64(100*j), float64(r.Range(0, 3))
				switch r.Intn(5) {
				case 3: // notched member and a big neighbour whose tip sits inside the notch: removing the notch makes them overlap
					d := float64(r.Range(6, 16))
					polys = append(polys,
						geom.NewPolygonXY([]float64{ox, oy, ox + 40, oy, ox + 40, oy + 16, ox + 40 - d, oy + 20, ox + 40, oy + 24, ox + 40, oy + 40, ox, oy + 40, ox, oy}),
						geom.NewPolygonXY([]float64{ox + 38, oy + 20, ox + 80, oy, ox + 80, oy + 40, ox + 38, oy + 20}))
				case 4: // big hole reaching into an outward bump of the shell: removing the bump cuts the hole
					d := float64(2 * r.Range(3, 5))
					polys = append(polys, geom.NewPolygonXY(
						[]float64{ox, oy, ox + 40, oy, ox + 40, oy + 10, ox + 40 + d, oy + 20, ox + 40, oy + 30, ox + 40, oy + 40, ox, oy + 40, ox, oy},
						[]float64{ox + 30, oy + 18, ox + 40 + d/2, oy + 18, ox + 40 + d/2, oy + 22, ox + 30, oy + 22, ox + 30, oy + 18}))
				case 0: // tiny triangle
					polys = append(polys, geom.NewPolygonXY([]float64{ox, oy, ox, oy + 1, ox + 1, oy, ox, oy}))
				case 1: // spiky shape whose simplification self-intersects
					a, b := float64(r.Range(15, 25)), float64(r.Range(1, 4))
					polys = append(polys, geom.NewPolygonXY([]float64{ox, oy, ox, oy + a, ox + a - b, oy + a, ox + a, oy + a + b, ox + a + b, oy + a, ox + 2*a, oy + a, ox + 2*a, oy, ox + a, oy + a + 1, ox, oy}))
				default: // square with a small hole
					a := float64(r.Range(6, 12))
					polys = append(polys, geom.NewPolygonXY([]float64{ox, oy, ox + a, oy, ox + a, oy + a, ox, oy + a, ox, oy}, []float64{ox + 1, oy + 1, ox + 2, oy + 1, ox + 1, oy + 2, ox + 1, oy + 1}))
				}
			}
			var g geom.Geometry = geom.NewMultiPolygon(polys).AsGeometry()
			if !exact.ValidGeom(g).OK {
				k.Skip("simplify-valid")
				return
			}
			if r.Chance(1, 4) {
				g = geom.NewGeometryCollection([]geom.Geometry{g, geom.NewLineStringXY(0, 0, 3, 1, 6, 0).AsGeometry()}).AsGeometry()
			}
			k.In("g", shared.WKT(g))
			k.Nontrivial(string(g.AsBinary()))
			for _, th := range []float64{0.5, 1, 2, 3, 4, 6, 10, 11, 17, float64(r.Range(1, 30))} {
				var res geom.Geometry
				var err error
				if k.Lib("nopanic", func() { res, err = g.Simplify(th) }) {
					continue
				}
				if err != nil {
					k.Check("simplify-valid", true, "")
					k.Count("simplify_collapse_errors", 1)
					continue
				}
				var verr error
				k.Lib("nopanic", func() { verr = res.Validate() })
				ok := verr == nil
				why := fmt.Sprint(verr)
				if ok {
					if v := exact.ValidGeom(res); !v.OK && v.Inconsistent == "" {
						ok, why = false, v.Rule
					}
				}
				k.Check("simplify-valid", ok, "Simplify(%g) returned an invalid geometry without an error: %s\n %s", th, why, res.AsText())
			}
		})
	}
	idx := 0
	for dp := -320; dp <= 320; dp++ {
		if c.Quick() && dp%2 != 0 && (dp < -20 || dp > 25) && dp != 309 && dp != -309 && dp != 307 {
			continue
		}
		idx++
		dp := dp
		c.Case("snap", idx, func(k *run.K) {
			k.In("decimal_places", fmt.Sprint(dp))
			k.Nontrivial(fmt.Sprint("snap", dp))
			snap(k, dp)
		})
	}
}
