// Package c06 monitors GeoJSON output (syntax, RFC 7946 shape), the round trip
// up to the format's forced losses, concrete-type decoding, grammar-generated
// documents and Feature / FeatureCollection round trips.
package c06

import (
	"bytes"
	"encoding/json"
	"fmt"
	"math"
	"reflect"
	"strings"

	"github.com/peterstace/simplefeatures/geom"

	"verif/exact"
	"verif/gen"
	"verif/model"
	"verif/props/shared"
	"verif/run"
)

func init() {
	run.Register(&run.Property{
		ID:    "C06",
		Title: "GeoJSON output is valid RFC 7946 and round-trips up to the format's limits",
		Rule: "cases = (a) valid geometries of 7 types x 4 coordinate types with empty members and nested collections (lattice XY scaled by powers of two for areal types, arbitrary finite float64 classes for points/lines and for Z/M); (b) documents generated from a grammar (positions of length 0..5, nulls, mixed dimensions, unknown types, missing members); (c) features with generated ids/properties/foreign members. " +
			"Output is re-parsed with encoding/json as the syntax/shape referee and the decoded value is compared with the harness's model of the forced losses. non-trivial = geometry with >= 2 nodes, Z/M, or an empty member; grammar documents and features always; distinct by WKB / document text",
		Assumptions:      []string{"forced losses modelled: M dropped; empty Points deleted from MultiPoints; Z kept iff the document contains at least one position; everything else bit-identical", "grammar documents with nulls or missing members may decode or fail; only position-length and type rules are judged strictly"},
		MinNontrivial:    500,
		RequiredMonitors: []string{"syntax", "shape", "roundtrip-image", "concrete-type", "grammar-doc", "feature", "feature-collection", "receiver-reuse", "concrete-entry"},
		Run:              runAll,
	})
}

func treeOf(g geom.Geometry) model.Tree { t, _ := model.FromGeom(g); return t }

var jsonName = map[geom.GeometryType]string{geom.TypePoint: "Point", geom.TypeLineString: "LineString", geom.TypePolygon: "Polygon",
	geom.TypeMultiPoint: "MultiPoint", geom.TypeMultiLineString: "MultiLineString", geom.TypeMultiPolygon: "MultiPolygon", geom.TypeGeometryCollection: "GeometryCollection"}

var depthOf = map[string]int{"Point": 1, "LineString": 2, "Polygon": 3, "MultiPoint": 2, "MultiLineString": 3, "MultiPolygon": 4}

// image models the forced losses of the format.
func image(t model.Tree) model.Tree {
	ct := geom.DimXY
	if t.CT.Is3D() && t.HasOrdinate() {
		ct = geom.DimXYZ
	}
	var rec func(n model.Tree) model.Tree
	rec = func(n model.Tree) model.Tree {
		out := model.Tree{Type: n.Type, CT: ct}
		d := n.CT.Dimension()
		for i := 0; i+d <= len(n.Coords); i += d {
			out.Coords = append(out.Coords, n.Coords[i], n.Coords[i+1])
			if ct.Is3D() {
				out.Coords = append(out.Coords, n.Coords[i+2])
			}
		}
		for _, k := range n.Kids {
			if n.Type == geom.TypeMultiPoint && len(k.Coords) == 0 {
				continue
			}
			out.Kids = append(out.Kids, rec(k))
		}
		return out
	}
	return rec(t)
}

// shapeCheck validates the generic decoding of a geometry object.
func shapeCheck(v any) string {
	obj, ok := v.(map[string]any)
	if !ok {
		return "geometry is not a JSON object"
	}
	typ, ok := obj["type"].(string)
	if !ok {
		return "missing type"
	}
	if typ == "GeometryCollection" {
		if len(obj) != 2 {
			return fmt.Sprintf("GeometryCollection has members %v", keys(obj))
		}
		arr, ok := obj["geometries"].([]any)
		if !ok {
			return "geometries is not an array"
		}
		for _, m := range arr {
			if s := shapeCheck(m); s != "" {
				return s
			}
		}
		return ""
	}
	depth, ok := depthOf[typ]
	if !ok {
		return "unknown type " + typ
	}
	if len(obj) != 2 {
		return fmt.Sprintf("%s has members %v", typ, keys(obj))
	}
	c, ok := obj["coordinates"]
	if !ok {
		return "missing coordinates"
	}
	var rec func(x any, d int) string
	rec = func(x any, d int) string {
		arr, ok := x.([]any)
		if !ok {
			return fmt.Sprintf("%s: expected an array at nesting depth %d", typ, depth-d+1)
		}
		if d == 1 {
			if len(arr) == 0 && typ == "Point" {
				return ""
			}
			if len(arr) != 2 && len(arr) != 3 {
				return fmt.Sprintf("%s: position of length %d", typ, len(arr))
			}
			for _, e := range arr {
				if _, ok := e.(float64); !ok {
					return typ + ": non-numeric position element"
				}
			}
			return ""
		}
		for _, e := range arr {
			if s := rec(e, d-1); s != "" {
				return s
			}
		}
		return ""
	}
	return rec(c, depth)
}

func keys(m map[string]any) []string {
	var k []string
	for s := range m {
		k = append(k, s)
	}
	return k
}

func geomCase(k *run.K) {
	g := &gen.G{R: k.Rng, Cfg: gen.NewCfg(k.Rng, gen.DSmall)}
	x := g.Rich(2)
	t, _ := model.FromGeom(x)
	t = model.SetZM(k.Rng, t, t.CT, model.ValueOpts{}, false)
	switch t.Type {
	case geom.TypePoint, geom.TypeMultiPoint, geom.TypeLineString, geom.TypeMultiLineString:
		if k.Rng.Bool() { // arbitrary finite XY
			o := model.ValueOpts{}
			t = t.Map(func(c []float64, _ geom.CoordinatesType) {
				tup := model.RandTree(k.Rng, geom.TypePoint, geom.DimXY, 0, o)
				if len(tup.Coords) == 2 {
					c[0], c[1] = tup.Coords[0], tup.Coords[1]
				}
			})
		}
	default:
		if k.Rng.Bool() {
			t = model.ScaleXY(t, []int{-30, -3, 7, 40, 200}[k.Rng.Intn(5)])
		}
	}
	judgeTree(k, t)
}

// judgeTree runs the geometry monitors on one (valid) tree.
func judgeTree(k *run.K, t model.Tree) {
	x := model.ToGeom(t)
	if v := exact.ValidGeom(x); !v.OK {
		k.Skip("roundtrip-image")
		k.Count("invalid_candidates_skipped", 1)
		return
	}
	if got := treeOf(x); !model.Equal(got, t) {
		k.Skip("roundtrip-image")
		k.Count("construct_mismatch", 1)
		return
	}
	k.In("tree", t.String())
	if t.CountNodes() >= 2 || t.CT != geom.DimXY || !t.HasOrdinate() {
		k.Nontrivial(string(x.AsBinary()))
	}
	var b []byte
	var err error
	if k.Lib("nopanic", func() { b, err = x.MarshalJSON() }) {
		return
	}
	shared.ConcreteAgree(k, x, "concrete-entry", []shared.Call{{Method: "MarshalJSON"}}, nil)
	// the returned bytes belong to the caller: later marshalling (of anything) must not change them
	{
		keep := string(b)
		k.Lib("nopanic", func() {
			_, _ = x.MarshalJSON()
			_, _ = geom.NewLineStringXY(1, 2, 3, 4).AsGeometry().MarshalJSON()
			_, _ = geom.NewMultiPointXY(7, 7, 8, 8).AsGeometry().MarshalJSON()
			_, _ = geom.NewPointXYZ(1, 2, 3).MarshalJSON()
			_, _ = geom.NewPointXY(9.5, -9.5).AsGeometry().MarshalJSON()
		})
		k.Check("syntax", string(b) == keep, "bytes returned by MarshalJSON changed after later MarshalJSON calls: %s -> %s", clip(keep), clip(string(b)))
	}
	k.In("geojson", string(b))
	if !k.Check("syntax", err == nil && json.Valid(b), "MarshalJSON err=%v valid=%v: %s", err, json.Valid(b), clip(string(b))) {
		return
	}
	b2, err2 := json.Marshal(x)
	k.Check("syntax", err2 == nil && string(b2) == string(compact(b)), "json.Marshal differs from MarshalJSON: %s vs %s", clip(string(b2)), clip(string(b)))
	var generic any
	if uerr := json.Unmarshal(b, &generic); uerr != nil {
		k.Check("syntax", false, "generic decode failed: %v", uerr)
		return
	}
	k.Check("shape", shapeCheck(generic) == "" && generic.(map[string]any)["type"] == jsonName[t.Type], "RFC 7946 shape violated: %s in %s", shapeCheck(generic), clip(string(b)))
	// round trip
	want := image(t)
	for _, how := range []string{"UnmarshalGeoJSON", "json.Unmarshal"} {
		var back geom.Geometry
		var derr error
		snapIn := append([]byte(nil), b...)
		if k.Lib("nopanic", func() {
			if how == "UnmarshalGeoJSON" {
				back, derr = geom.UnmarshalGeoJSON(b)
			} else {
				derr = json.Unmarshal(b, &back)
			}
		}) {
			continue
		}
		k.Check("roundtrip-image", bytes.Equal(snapIn, b), "%s modified its input buffer", how)
		if derr == nil {
			hp := shared.HiddenPayload(back)
			k.Check("roundtrip-image", hp == "", "%s: %s", how, hp)
		}
		if k.Check("roundtrip-image", derr == nil, "%s of own output failed: %v (%s)", how, derr, clip(string(b))) {
			k.Check("roundtrip-image", model.Equal(treeOf(back), want), "%s(MarshalJSON(g)) differs from the format image: %s", how, model.Diff(treeOf(back), want))
		}
	}
	// concrete types
	concrete(k, b, want)
}

func compact(b []byte) []byte {
	var buf bytes.Buffer
	json.Compact(&buf, b)
	return buf.Bytes()
}

func concrete(k *run.K, b []byte, want model.Tree) {
	targets := []struct {
		typ geom.GeometryType
		dec func() (geom.Geometry, error)
	}{
		{geom.TypePoint, func() (geom.Geometry, error) { var v geom.Point; e := json.Unmarshal(b, &v); return v.AsGeometry(), e }},
		{geom.TypeLineString, func() (geom.Geometry, error) {
			var v geom.LineString
			e := json.Unmarshal(b, &v)
			return v.AsGeometry(), e
		}},
		{geom.TypePolygon, func() (geom.Geometry, error) {
			var v geom.Polygon
			e := json.Unmarshal(b, &v)
			return v.AsGeometry(), e
		}},
		{geom.TypeMultiPoint, func() (geom.Geometry, error) {
			var v geom.MultiPoint
			e := json.Unmarshal(b, &v)
			return v.AsGeometry(), e
		}},
		{geom.TypeMultiLineString, func() (geom.Geometry, error) {
			var v geom.MultiLineString
			e := json.Unmarshal(b, &v)
			return v.AsGeometry(), e
		}},
		{geom.TypeMultiPolygon, func() (geom.Geometry, error) {
			var v geom.MultiPolygon
			e := json.Unmarshal(b, &v)
			return v.AsGeometry(), e
		}},
		{geom.TypeGeometryCollection, func() (geom.Geometry, error) {
			var v geom.GeometryCollection
			e := json.Unmarshal(b, &v)
			return v.AsGeometry(), e
		}},
	}
	for _, tg := range targets {
		var out geom.Geometry
		var err error
		if k.Lib("nopanic", func() { out, err = tg.dec() }) {
			continue
		}
		if tg.typ == want.Type {
			k.Check("concrete-type", err == nil && model.Equal(treeOf(out), want), "decoding %s into %v: err=%v", jsonName[want.Type], tg.typ, err)
		} else {
			k.Check("concrete-type", err != nil, "decoding a %s document into %v succeeded", jsonName[want.Type], tg.typ)
		}
	}
}

func clip(s string) string {
	if len(s) > 400 {
		return s[:400] + "…"
	}
	return s
}

// ---------- grammar-generated documents ----------

type doc struct {
	text    string
	tree    model.Tree // expected (before ctype decision), valid iff !mustErr && defined
	lens    map[int]bool
	mustErr bool // a rule the decoder must reject
	loose   bool // nulls / missing members: either outcome is acceptable
}

func num(r *run.Rng) (string, float64) {
	v := []float64{0, 1, -1, 2.5, 100, -0.125, 1e-7, 123456.789, 1e21}[r.Intn(9)]
	if r.Chance(1, 3) {
		v = float64(r.Range(-50, 50))
	}
	b, _ := json.Marshal(v)
	return string(b), v
}

func position(r *run.Rng, d *doc, allowEmpty bool) (string, []float64) {
	n := []int{2, 2, 2, 3, 3, 3, 4, 5, 1, 0}[r.Intn(10)]
	if r.Chance(3, 4) && n < 2 {
		n = 2
	}
	if d.lens == nil {
		d.lens = map[int]bool{}
	}
	d.lens[n] = true
	if n == 1 || (n == 0 && !allowEmpty) {
		d.mustErr = true
	}
	var parts []string
	var vals []float64
	for i := 0; i < n; i++ {
		s, v := num(r)
		parts = append(parts, s)
		vals = append(vals, v)
	}
	return "[" + strings.Join(parts, ",") + "]", vals
}

func genDoc(r *run.Rng, depth int, d *doc) (string, model.Tree) {
	types := []string{"Point", "LineString", "Polygon", "MultiPoint", "MultiLineString", "MultiPolygon", "GeometryCollection"}
	typ := types[r.Intn(7)]
	if typ == "GeometryCollection" && depth <= 0 {
		typ = "Point"
	}
	if r.Chance(1, 60) {
		d.mustErr = true
		return `{"type":"Circle","coordinates":[1,2]}`, model.Tree{}
	}
	if r.Chance(1, 60) {
		d.loose = true
		return `{"type":"` + typ + `"}`, model.Tree{}
	}
	if r.Chance(1, 60) {
		d.loose = true
		return `{"type":"` + typ + `","coordinates":null}`, model.Tree{}
	}
	raw := func(vals []float64) []float64 { return vals } // truncation / ctype applied later
	seq := func(min int) (string, [][]float64) {
		n := r.Range(min, 4)
		if r.Chance(1, 8) {
			n = 0
		}
		var parts []string
		var pts [][]float64
		for i := 0; i < n; i++ {
			s, v := position(r, d, false)
			parts = append(parts, s)
			pts = append(pts, raw(v))
		}
		return "[" + strings.Join(parts, ",") + "]", pts
	}
	lineTree := func(pts [][]float64) model.Tree {
		t := model.Tree{Type: geom.TypeLineString}
		for _, p := range pts {
			t.Kids = append(t.Kids, model.Tree{Coords: p}) // temporary holder
		}
		return t
	}
	polyDoc := func() (string, model.Tree) {
		n := r.Range(0, 2)
		var parts []string
		t := model.Tree{Type: geom.TypePolygon}
		for i := 0; i < n; i++ {
			s, pts := seq(3)
			parts = append(parts, s)
			t.Kids = append(t.Kids, lineTree(pts))
		}
		return "[" + strings.Join(parts, ",") + "]", t
	}
	switch typ {
	case "Point":
		s, v := position(r, d, true)
		t := model.Tree{Type: geom.TypePoint}
		if len(v) > 0 {
			t.Kids = []model.Tree{{Coords: v}}
		}
		return `{"type":"Point","coordinates":` + s + `}`, t
	case "LineString":
		s, pts := seq(1)
		return `{"type":"LineString","coordinates":` + s + `}`, lineTree(pts)
	case "Polygon":
		s, t := polyDoc()
		return `{"type":"Polygon","coordinates":` + s + `}`, t
	case "MultiPoint":
		s, pts := seq(0)
		t := model.Tree{Type: geom.TypeMultiPoint}
		for _, p := range pts {
			t.Kids = append(t.Kids, model.Tree{Type: geom.TypePoint, Kids: []model.Tree{{Coords: p}}})
		}
		return `{"type":"MultiPoint","coordinates":` + s + `}`, t
	case "MultiLineString":
		n := r.Range(0, 3)
		var parts []string
		t := model.Tree{Type: geom.TypeMultiLineString}
		for i := 0; i < n; i++ {
			s, pts := seq(1)
			parts = append(parts, s)
			t.Kids = append(t.Kids, lineTree(pts))
		}
		return `{"type":"MultiLineString","coordinates":[` + strings.Join(parts, ",") + `]}`, t
	case "MultiPolygon":
		n := r.Range(0, 2)
		var parts []string
		t := model.Tree{Type: geom.TypeMultiPolygon}
		for i := 0; i < n; i++ {
			s, p := polyDoc()
			parts = append(parts, s)
			t.Kids = append(t.Kids, p)
		}
		return `{"type":"MultiPolygon","coordinates":[` + strings.Join(parts, ",") + `]}`, t
	default:
		n := r.Range(0, 3)
		var parts []string
		t := model.Tree{Type: geom.TypeGeometryCollection}
		for i := 0; i < n; i++ {
			s, k := genDoc(r, depth-1, d)
			parts = append(parts, s)
			t.Kids = append(t.Kids, k)
		}
		return `{"type":"GeometryCollection","geometries":[` + strings.Join(parts, ",") + `]}`, t
	}
}

// finalize turns the temporary holder structure into a real tree of ctype ct.
func finalize(t model.Tree, ct geom.CoordinatesType) model.Tree {
	d := ct.Dimension()
	out := model.Tree{Type: t.Type, CT: ct}
	switch t.Type {
	case geom.TypePoint:
		if len(t.Kids) == 1 {
			out.Coords = append([]float64(nil), t.Kids[0].Coords[:d]...)
		}
	case geom.TypeLineString:
		for _, p := range t.Kids {
			out.Coords = append(out.Coords, p.Coords[:d]...)
		}
	default:
		for _, k := range t.Kids {
			out.Kids = append(out.Kids, finalize(k, ct))
		}
	}
	return out
}

func grammarCase(k *run.K) {
	d := &doc{}
	text, holder := genDoc(k.Rng, 2, d)
	k.In("document", text)
	k.Nontrivial(text)
	var g geom.Geometry
	var err error
	if k.Lib("grammar-doc", func() { g, err = geom.UnmarshalGeoJSON([]byte(text), geom.NoValidate{}) }) {
		return
	}
	switch {
	case d.mustErr:
		k.Check("grammar-doc", err != nil, "document with an invalid position length / unknown type was accepted as %s", g.AsText())
	case d.loose:
		k.Check("grammar-doc", true, "")
		k.Count("loose_documents", 1)
	default:
		ct := geom.DimXY
		has2, has3 := d.lens[2], false
		for n := range d.lens {
			if n >= 3 {
				has3 = true
			}
		}
		if !has2 && has3 {
			ct = geom.DimXYZ
		}
		want := finalize(holder, ct)
		if k.Check("grammar-doc", err == nil, "well-formed document rejected: %v", err) {
			k.Check("grammar-doc", model.Equal(treeOf(g), want), "document decodes to %s, model says %s (%s)", treeOf(g), want, model.Diff(treeOf(g), want))
			hp := shared.HiddenPayload(g)
			k.Check("grammar-doc", hp == "", "decoded value carries a dropped ordinate: %s", hp)
		}
	}
}

// ---------- features ----------

func jsonValue(r *run.Rng, depth int) any {
	switch r.Intn(8) {
	case 0:
		return nil
	case 1:
		return r.Bool()
	case 2:
		return float64(r.Range(-1000, 1000))
	case 3:
		return []float64{0.5, -1e-9, 1e300, 3.25, 1e21}[r.Intn(5)]
	case 4:
		return []string{"", "x", "héllo wörld", "quote\"back\\slash", "<tag>&amp;", " line", "tab\tnl\n", "emoji😀"}[r.Intn(8)]
	case 5:
		if depth <= 0 {
			return "leaf"
		}
		n := r.Intn(3)
		a := make([]any, n)
		for i := range a {
			a[i] = jsonValue(r, depth-1)
		}
		return a
	default:
		if depth <= 0 {
			return float64(7)
		}
		m := map[string]any{}
		for i := r.Intn(3); i > 0; i-- {
			m[[]string{"a", "b", "name", "type", "geometry", "nested key", ""}[r.Intn(7)]] = jsonValue(r, depth-1)
		}
		return m
	}
}

func normProps(m map[string]any) map[string]any {
	if m == nil {
		return map[string]any{}
	}
	return m
}

func mkFeature(r *run.Rng) geom.GeoJSONFeature {
	g := &gen.G{R: r, Cfg: gen.NewCfg(r, gen.DSmall)}
	f := geom.GeoJSONFeature{Geometry: g.Rich(1).Force2D()}
	switch r.Intn(4) {
	case 0:
		f.ID = "id-" + fmt.Sprint(r.Intn(100))
	case 1:
		f.ID = float64(r.Range(0, 1000))
	case 2:
		f.ID = ""
	}
	switch r.Intn(3) {
	case 0:
		f.Properties = map[string]any{}
	case 1:
		f.Properties = map[string]any{}
		for i := r.Range(1, 4); i > 0; i-- {
			f.Properties[[]string{"name", "pop", "type", "id", "geometry", "k"}[r.Intn(6)]] = jsonValue(r, 2)
		}
	}
	if r.Bool() {
		f.ForeignMembers = map[string]any{}
		for i := r.Intn(3); i > 0; i-- {
			f.ForeignMembers[[]string{"bbox", "crs", "title", "Type", "x-foreign", "features"}[r.Intn(6)]] = jsonValue(r, 2)
		}
	}
	return f
}

func featureEq(a, b geom.GeoJSONFeature) string {
	if want := image(treeOf(a.Geometry)); !model.Equal(want, treeOf(b.Geometry)) {
		return "geometry differs from the format image: " + model.Diff(want, treeOf(b.Geometry))
	}
	if !reflect.DeepEqual(a.ID, b.ID) {
		return fmt.Sprintf("id %#v vs %#v", a.ID, b.ID)
	}
	if !reflect.DeepEqual(normProps(a.Properties), normProps(b.Properties)) {
		return fmt.Sprintf("properties %#v vs %#v", a.Properties, b.Properties)
	}
	if !reflect.DeepEqual(normProps(a.ForeignMembers), normProps(b.ForeignMembers)) {
		return fmt.Sprintf("foreign members %#v vs %#v", a.ForeignMembers, b.ForeignMembers)
	}
	return ""
}

func featureCase(k *run.K) {
	f := mkFeature(k.Rng)
	var b []byte
	var err error
	if k.Lib("feature", func() { b, err = json.Marshal(f) }) {
		return
	}
	k.In("feature", string(b))
	k.Nontrivial(string(b))
	if !k.Check("feature", err == nil && json.Valid(b), "Feature marshal err=%v valid=%v", err, json.Valid(b)) {
		return
	}
	var generic map[string]any
	json.Unmarshal(b, &generic)
	_, hasProps := generic["properties"].(map[string]any)
	k.Check("feature", generic["type"] == "Feature" && hasProps && shapeCheck(generic["geometry"]) == "", "Feature document shape: %s", clip(string(b)))
	var back geom.GeoJSONFeature
	if k.Lib("feature", func() { err = json.Unmarshal(b, &back) }) {
		return
	}
	if k.Check("feature", err == nil, "Feature unmarshal of own output: %v", err) {
		d := featureEq(f, back)
		k.Check("feature", d == "", "Feature round trip: %s", d)
	}
	// a receiver that already holds another feature is overwritten completely, and a copy taken of the
	// earlier value is not affected by the later decode
	{
		prev := mkFeature(k.Rng)
		var pb []byte
		var e0, e1 error
		var reused, kept geom.GeoJSONFeature
		if !k.Lib("receiver-reuse", func() {
			pb, e0 = json.Marshal(prev)
			if e0 == nil {
				e0 = json.Unmarshal(pb, &reused)
			}
			kept = reused
			e1 = json.Unmarshal(b, &reused)
		}) && e0 == nil {
			if k.Check("receiver-reuse", e1 == nil, "Feature unmarshal into a used receiver: %v", e1) {
				d := featureEq(f, reused)
				k.Check("receiver-reuse", d == "", "Feature decoded into a receiver that held another feature: %s\n earlier %s\n later   %s", d, clip(string(pb)), clip(string(b)))
				d = featureEq(prev, kept)
				k.Check("receiver-reuse", d == "", "a copy of the earlier Feature changed when the variable was decoded into again: %s", d)
			}
		}
		// same for a Geometry receiver
		var gr geom.Geometry
		var gb []byte
		if !k.Lib("receiver-reuse", func() {
			gb, _ = json.Marshal(f.Geometry)
			e0 = json.Unmarshal([]byte(`{"type":"LineString","coordinates":[[1,2,3],[4,5,6]]}`), &gr)
			e1 = json.Unmarshal(gb, &gr)
		}) {
			k.Check("receiver-reuse", e0 == nil && e1 == nil && model.Equal(image(treeOf(f.Geometry)), treeOf(gr)), "Geometry decoded into a used receiver: %v %v %s", e0, e1, model.Diff(image(treeOf(f.Geometry)), treeOf(gr)))
		}
	}
	// collection
	fc := geom.GeoJSONFeatureCollection{f}
	for i := k.Rng.Intn(3); i > 0; i-- {
		fc = append(fc, mkFeature(k.Rng))
	}
	if k.Rng.Chance(1, 6) {
		fc = geom.GeoJSONFeatureCollection{}
	}
	var cb []byte
	if k.Lib("feature-collection", func() { cb, err = json.Marshal(fc) }) {
		return
	}
	if !k.Check("feature-collection", err == nil && json.Valid(cb), "FeatureCollection marshal err=%v", err) {
		return
	}
	var cg map[string]any
	json.Unmarshal(cb, &cg)
	_, isArr := cg["features"].([]any)
	k.Check("feature-collection", cg["type"] == "FeatureCollection" && isArr && len(cg) == 2, "FeatureCollection document shape: %s", clip(string(cb)))
	var cback geom.GeoJSONFeatureCollection
	if k.Lib("feature-collection", func() { err = json.Unmarshal(cb, &cback) }) {
		return
	}
	ok := err == nil && len(cback) == len(fc)
	d := ""
	for i := 0; ok && i < len(fc); i++ {
		if d = featureEq(fc[i], cback[i]); d != "" {
			ok = false
		}
	}
	k.Check("feature-collection", ok, "FeatureCollection round trip: err=%v %s", err, d)
	// a collection receiver that already holds features
	used := geom.GeoJSONFeatureCollection{mkFeature(k.Rng), mkFeature(k.Rng), mkFeature(k.Rng), mkFeature(k.Rng)}
	if !k.Lib("receiver-reuse", func() { err = json.Unmarshal(cb, &used) }) {
		ok = err == nil && len(used) == len(fc)
		d = ""
		for i := 0; ok && i < len(fc); i++ {
			if d = featureEq(fc[i], used[i]); d != "" {
				ok = false
			}
		}
		k.Check("receiver-reuse", ok, "FeatureCollection decoded into a used receiver: err=%v len %d vs %d %s", err, len(used), len(fc), d)
	}
	// wrong top-level types are rejected
	var f2 geom.GeoJSONFeature
	var c2 geom.GeoJSONFeatureCollection
	k.Check("feature", json.Unmarshal(cb, &f2) != nil, "a FeatureCollection document decoded as a Feature")
	k.Check("feature-collection", json.Unmarshal(b, &c2) != nil, "a Feature document decoded as a FeatureCollection")
	_ = math.Pi
}

func runAll(c *run.Ctx) {
	for i := 0; i < c.N(16000, 200000); i++ {
		c.Case("geom", i, geomCase)
	}
	cidx := 0
	for _, cn := range []int{255, 256, 257, 1023, 1024, 1025} {
		for _, kind := range []int{4, 5} {
			cidx++
			cn, kind := cn, kind
			ct := model.CTypes[cidx%4]
			c.Case("counts", cidx, func(k *run.K) { judgeTree(k, model.SizedTree(kind, cn, ct)) })
		}
	}
	// curves of every length 1..140 (and around 256, 512, 1024) followed by further curves
	idx := 0
	sizes := []int{254, 255, 256, 257, 258, 511, 512, 513, 1023, 1024, 1025}
	for n := 2; n <= 140; n++ {
		sizes = append(sizes, n)
	}
	for _, n := range sizes {
		for _, ct := range model.CTypes {
			for _, kind := range []int{0, 2} {
				idx++
				n, ct, kind := n, ct, kind
				c.Case("sized", idx, func(k *run.K) { judgeTree(k, model.SizedTree(kind, n, ct)) })
			}
		}
	}
	for i := 0; i < c.N(5000, 100000); i++ {
		c.Case("grammar", i, grammarCase)
	}
	for i := 0; i < c.N(2000, 40000); i++ {
		c.Case("feature", i, featureCase)
	}
}
