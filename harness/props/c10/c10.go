// Package c10 monitors immutability, determinism and race-freedom: operand
// snapshots around every call, repetition (fresh map iteration orders),
// cross-process digest tables, and concurrent use of shared operands under
// the race detector.
package c10

import (
	"bytes"
	"encoding/hex"
	"fmt"
	"math"
	"os"
	"path/filepath"
	"regexp"
	"sort"
	"strings"
	"sync"
	"time"

	"github.com/peterstace/simplefeatures/geom"
	"github.com/peterstace/simplefeatures/rtree"

	"verif/exact"
	"verif/gen"
	"verif/props/shared"
	"verif/run"
)

func init() {
	run.Register(&run.Property{
		ID:    "C10",
		Title: "Geometries are immutable values: operations are pure, deterministic, race-free",
		Rule: "[added in rounds 9-11: junction: lines starting at / ending at / passing through one hub against a probe at the hub, every map-ordered binary operation repeated 41 times] cases = (operation, operand tuple) over an operation table of the public read API (codecs, validation, predicates, set operations, hull, distance, simplification, transforms, dumps, R-tree searches) and a pool of shared valid operands from C01's domain (D-small lattice, where map-ordered overlay structures are largest): each case snapshots the operands, runs the call 24-64 times in one process and records a result digest; a second set of worker processes (different GOMAXPROCS and sharding) recomputes every digest; a -race build runs 2/4/8/16 goroutines over the same shared operands without synchronisation and compares every digest with the sequential table; race-detector reports are counted from its log. " +
			"non-trivial = a call whose operands are non-empty; distinct by (operation, operand WKBs)",
		Assumptions: []string{"digests are of values the API returns (WKB / matrix / float bits / error text / callback id sequences)", "BulkLoad permuting its argument slice is documented constructor behaviour and outside the statement",
			"workload goroutines share no monitor state between the start barrier and Wait (no mutex/atomic that would add happens-before edges)"},
		MinNontrivial:  300,
		CaseCPUSeconds: 3600, // one case = thousands of concurrent calls under the race detector
		Variants: []run.Variant{
			{Name: "p2", Env: []string{"GOMAXPROCS=3"}, Shards: 7},
			{Name: "race", BuildFlags: []string{"-race"}, Env: []string{"GORACE=halt_on_error=0 log_path=" + raceLogPrefix()}, Shards: 4},
		},
		RequiredMonitors: []string{"operand-unchanged", "repeat-identical", "concurrent-identical", "race-log", "constructor-aliasing", "accessor-aliasing"},
		Run:              runAll,
	})
	run.PostHooks["C10"] = post
}

func root() string {
	if r := os.Getenv("VERIF_ROOT"); r != "" {
		return r
	}
	return "/verif"
}

func raceLogPrefix() string { return filepath.Join(run.WorkRoot(root()), "C10", "race") }

// ---------- operands ----------

type tree struct {
	name  string
	t     *rtree.RTree
	n     int
	boxes []rtree.Box
}

type world struct {
	geoms []geom.Geometry
	trees []tree
}

func buildWorld(seed uint64, n int) *world {
	w := &world{}
	r := run.NewRng(seed, "c10-world")
	for i := 0; i < n; i++ {
		g := &gen.G{R: r.Fork(), Cfg: gen.NewCfg(r, gen.DSmall)}
		g.Cfg.OffX, g.Cfg.OffY = 0, 0 // keep operands overlapping so overlays are rich
		g.Cfg.FlipX, g.Cfg.FlipY = false, false
		x := g.Rich(2)
		switch i % 5 {
		case 1:
			x = fanPolygon(r)
		case 3:
			x = fanLines(r)
		}
		w.geoms = append(w.geoms, x)
	}
	// derived operands whose coordinate storage is shared with other pool members or has
	// spare capacity (as parsed or computed geometries have): aliasing bugs need these
	base := len(w.geoms)
	for i := 0; i < base && i < 24; i++ {
		g := w.geoms[i]
		switch i % 4 {
		case 0: // parsed from text
			if p, err := geom.UnmarshalWKT(g.AsText(), geom.NoValidate{}); err == nil {
				w.geoms = append(w.geoms, p)
				if !p.IsEmpty() {
					w.geoms = append(w.geoms, geom.NewGeometryCollection([]geom.Geometry{p, geom.NewPointXY(100, 200).AsGeometry()}).AsGeometry())
				}
			}
		case 1: // pieces of a set-operation result (windows onto shared arrays)
			o := w.geoms[(i+7)%base]
			for _, f := range []func(a, b geom.Geometry) (geom.Geometry, error){geom.Difference, geom.Intersection, geom.Union} {
				r, err := f(g, o)
				if err != nil || r.IsEmpty() {
					continue
				}
				w.geoms = append(w.geoms, r)
				parts := r.Dump()
				if len(parts) >= 2 {
					w.geoms = append(w.geoms, geom.NewGeometryCollection([]geom.Geometry{parts[0], geom.NewPointXY(100, 200).AsGeometry()}).AsGeometry())
					w.geoms = append(w.geoms, geom.NewGeometryCollection([]geom.Geometry{parts[len(parts)-1], parts[0]}).AsGeometry())
				}
				break
			}
		case 2: // a LineString that is a slice of a longer one's sequence
			long := geom.NewLineStringXY(0, 0, 1, 3, 2, 1, 4, 4, 5, 0, 7, 2, 8, 8)
			w.geoms = append(w.geoms, long.AsGeometry())
			short := geom.NewLineString(long.Coordinates().Slice(0, 3))
			w.geoms = append(w.geoms, short.AsGeometry())
			w.geoms = append(w.geoms, geom.NewGeometryCollection([]geom.Geometry{short.AsGeometry(), geom.NewPointXY(100, 200).AsGeometry(), g}).AsGeometry())
		}
	}
	for ti := 0; ti < 3; ti++ {
		m := []int{7, 60, 900}[ti]
		items := make([]rtree.BulkItem, m)
		boxes := make([]rtree.Box, m)
		for i := range items {
			x, y := float64(r.Range(-200, 200))/4, float64(r.Range(-200, 200))/4
			b := rtree.Box{MinX: x, MinY: y, MaxX: x + float64(r.Range(0, 40))/4, MaxY: y + float64(r.Range(0, 40))/4}
			items[i] = rtree.BulkItem{Box: b, RecordID: i}
			boxes[i] = b
		}
		w.trees = append(w.trees, tree{fmt.Sprintf("tree%d", m), rtree.BulkLoad(items), m, boxes})
	}
	return w
}

// fanPolygon: a square shell with 2-3 triangular holes that share their
// left-most vertex (results containing them have rings whose sort keys tie on
// the first vertex), optionally as a MultiPolygon with a second such member.
func fanPolygon(r *run.Rng) geom.Geometry {
	for tries := 0; tries < 50; tries++ {
		ax, ay := r.Range(1, 3), r.Range(3, 6)
		rings := [][]float64{{0, 0, 9, 0, 9, 9, 0, 9, 0, 0}}
		k := r.Range(2, 3)
		ys := r.Perm(8)
		for h := 0; h < k; h++ {
			x1, y1 := r.Range(ax+1, 8), ys[2*h]+1
			x2, y2 := r.Range(ax+1, 8), ys[2*h+1]+1
			rings = append(rings, []float64{float64(ax), float64(ay), float64(x1), float64(y1), float64(x2), float64(y2), float64(ax), float64(ay)})
		}
		p := geom.NewPolygonXY(rings...)
		if exact.ValidGeom(p.AsGeometry()).OK { // the oracle, not the library, admits operands
			if r.Bool() {
				return p.AsGeometry()
			}
			q := p.TransformXY(func(v geom.XY) geom.XY { return geom.XY{X: v.X + 10, Y: v.Y} })
			return geom.NewMultiPolygon([]geom.Polygon{q, p}).AsGeometry()
		}
	}
	return geom.NewPolygonXY([]float64{0, 0, 9, 0, 9, 9, 0, 9, 0, 0}).AsGeometry()
}

// fanLines: several LineStrings leaving one common point (ties on the first vertex).
func fanLines(r *run.Rng) geom.Geometry {
	ax, ay := float64(r.Range(0, 4)), float64(r.Range(0, 8))
	var ls []geom.LineString
	for i := r.Range(3, 5); i > 0; i-- {
		ls = append(ls, geom.NewLineStringXY(ax, ay, float64(r.Range(5, 9)), float64(r.Range(0, 9)), float64(r.Range(5, 9)), float64(r.Range(0, 9))))
	}
	return geom.NewMultiLineString(ls).AsGeometry()
}

// ---------- operations ----------

type op struct {
	name  string
	arity int // geometry operands
	fn    func(a, b geom.Geometry) string
}

func dg(g geom.Geometry, err error) string {
	if err != nil {
		return "error:" + err.Error()
	}
	return g.Type().String() + ":" + hex.EncodeToString(g.AsBinary())
}
func fb(f float64) string { return fmt.Sprintf("%016x", math.Float64bits(f)) }
func be(b bool, err error) string {
	if err != nil {
		return "error:" + err.Error()
	}
	return fmt.Sprint(b)
}

var ops = []op{
	{"AsText", 1, func(a, _ geom.Geometry) string { return a.AsText() }},
	{"AsBinary", 1, func(a, _ geom.Geometry) string { return hex.EncodeToString(a.AsBinary()) }},
	{"MarshalJSON", 1, func(a, _ geom.Geometry) string { b, e := a.MarshalJSON(); return string(b) + fmt.Sprint(e) }},
	{"MarshalTWKB", 1, func(a, _ geom.Geometry) string {
		b, e := geom.MarshalTWKB(a, 2, geom.TWKBSizeHeader(), geom.TWKBBoundingBoxHeader())
		return hex.EncodeToString(b) + fmt.Sprint(e)
	}},
	{"UnmarshalWKB", 1, func(a, _ geom.Geometry) string { return dg(geom.UnmarshalWKB(a.AsBinary())) }},
	{"UnmarshalWKT", 1, func(a, _ geom.Geometry) string { return dg(geom.UnmarshalWKT(a.AsText())) }},
	{"Validate", 1, func(a, _ geom.Geometry) string { return fmt.Sprint(a.Validate()) }},
	{"IsSimple", 1, func(a, _ geom.Geometry) string { s, w := a.IsSimple(); return fmt.Sprint(s, w) }},
	{"IsEmpty/Dimension/Type", 1, func(a, _ geom.Geometry) string {
		return fmt.Sprint(a.IsEmpty(), a.Dimension(), a.Type(), a.CoordinatesType())
	}},
	{"Envelope", 1, func(a, _ geom.Geometry) string { return a.Envelope().String() }},
	{"Boundary", 1, func(a, _ geom.Geometry) string { return dg(a.Boundary(), nil) }},
	{"ConvexHull", 1, func(a, _ geom.Geometry) string { return dg(a.ConvexHull(), nil) }},
	{"Centroid", 1, func(a, _ geom.Geometry) string { return dg(a.Centroid().AsGeometry(), nil) }},
	{"PointOnSurface", 1, func(a, _ geom.Geometry) string { return dg(a.PointOnSurface().AsGeometry(), nil) }},
	{"Area", 1, func(a, _ geom.Geometry) string { return fb(a.Area()) + fb(a.Area(geom.SignedArea)) }},
	{"Length", 1, func(a, _ geom.Geometry) string { return fb(a.Length()) }},
	{"Reverse", 1, func(a, _ geom.Geometry) string { return dg(a.Reverse(), nil) }},
	{"ForceCW", 1, func(a, _ geom.Geometry) string { return dg(a.ForceCW(), nil) + fmt.Sprint(a.IsCW(), a.IsCCW()) }},
	{"ForceCCW", 1, func(a, _ geom.Geometry) string { return dg(a.ForceCCW(), nil) }},
	{"Force2D", 1, func(a, _ geom.Geometry) string {
		return dg(a.Force2D(), nil) + dg(a.ForceCoordinatesType(geom.DimXYZM), nil)
	}},
	{"Simplify", 1, func(a, _ geom.Geometry) string { return dg(a.Simplify(0.7)) }},
	{"Densify", 1, func(a, _ geom.Geometry) string { return dg(a.Densify(0.9), nil) }},
	{"SnapToGrid", 1, func(a, _ geom.Geometry) string { return dg(a.SnapToGrid(0), nil) }},
	{"TransformXY", 1, func(a, _ geom.Geometry) string {
		return dg(a.TransformXY(func(p geom.XY) geom.XY { return geom.XY{X: 2*p.X + 1, Y: p.Y - 3} }), nil)
	}},
	{"Dump", 1, func(a, _ geom.Geometry) string {
		var sb strings.Builder
		for _, p := range a.Dump() {
			sb.WriteString(dg(p, nil) + ";")
		}
		s := a.DumpCoordinates()
		for i := 0; i < s.Length(); i++ {
			c := s.Get(i)
			sb.WriteString(fb(c.X) + fb(c.Y) + fb(c.Z) + fb(c.M))
		}
		return sb.String()
	}},
	{"UnaryUnion", 1, func(a, _ geom.Geometry) string { return dg(geom.UnaryUnion(a)) }},
	{"RotatedMinimumAreaBoundingRectangle", 1, func(a, _ geom.Geometry) string {
		return dg(geom.RotatedMinimumAreaBoundingRectangle(a), nil) + dg(geom.RotatedMinimumWidthBoundingRectangle(a), nil)
	}},
	{"Summary", 1, func(a, _ geom.Geometry) string { return a.Summary() + a.String() }},
	{"Union", 2, func(a, b geom.Geometry) string { return dg(geom.Union(a, b)) }},
	{"Intersection", 2, func(a, b geom.Geometry) string { return dg(geom.Intersection(a, b)) }},
	{"Difference", 2, func(a, b geom.Geometry) string { return dg(geom.Difference(a, b)) }},
	{"SymmetricDifference", 2, func(a, b geom.Geometry) string { return dg(geom.SymmetricDifference(a, b)) }},
	{"UnionMany", 2, func(a, b geom.Geometry) string { return dg(geom.UnionMany([]geom.Geometry{a, b, a})) }},
	{"Relate", 2, func(a, b geom.Geometry) string { m, e := geom.Relate(a, b); return m + fmt.Sprint(e) }},
	{"Predicates", 2, func(a, b geom.Geometry) string {
		return strings.Join([]string{be(geom.Equals(a, b)), be(geom.Disjoint(a, b)), be(geom.Touches(a, b)), be(geom.Contains(a, b)), be(geom.Covers(a, b)),
			be(geom.Within(a, b)), be(geom.CoveredBy(a, b)), be(geom.Crosses(a, b)), be(geom.Overlaps(a, b))}, ",")
	}},
	{"Intersects", 2, func(a, b geom.Geometry) string { return fmt.Sprint(geom.Intersects(a, b)) }},
	{"Distance", 2, func(a, b geom.Geometry) string { d, ok := geom.Distance(a, b); return fb(d) + fmt.Sprint(ok) }},
	{"ExactEquals", 2, func(a, b geom.Geometry) string {
		return fmt.Sprint(geom.ExactEquals(a, b), geom.ExactEquals(a, b, geom.IgnoreOrder), geom.ExactEquals(a, a, geom.IgnoreOrder))
	}},
	{"NewGeometryCollection", 2, func(a, b geom.Geometry) string {
		return dg(geom.NewGeometryCollection([]geom.Geometry{a, b}).AsGeometry(), nil)
	}},
}

// heavy operations get more repetitions (map-ordered internals)
var heavy = map[string]bool{"Union": true, "Intersection": true, "Difference": true, "SymmetricDifference": true, "UnionMany": true, "Relate": true, "UnaryUnion": true, "ConvexHull": true, "Predicates": true, "Validate": true}

func treeOp(t tree, kind int, q rtree.Box) string {
	var sb strings.Builder
	switch kind {
	case 0:
		err := t.t.RangeSearch(q, func(id int) error { fmt.Fprintf(&sb, "%d,", id); return nil })
		fmt.Fprint(&sb, err)
	case 1:
		n := 0
		err := t.t.PrioritySearch(q, func(id int) error {
			fmt.Fprintf(&sb, "%d,", id)
			n++
			if n >= 25 {
				return rtree.Stop
			}
			return nil
		})
		fmt.Fprint(&sb, err)
	case 2:
		id, ok := t.t.Nearest(q)
		fmt.Fprint(&sb, id, ok)
	default:
		e, ok := t.t.Extent()
		fmt.Fprint(&sb, e, ok, t.t.Count())
	}
	return sb.String()
}

// snapshot of an operand through independent accessors
func snapshot(g geom.Geometry) string {
	var sb strings.Builder
	sb.WriteString(hex.EncodeToString(g.AsBinary()))
	s := g.DumpCoordinates()
	for i := 0; i < s.Length(); i++ {
		c := s.Get(i)
		sb.WriteString(fb(c.X) + fb(c.Y) + fb(c.Z) + fb(c.M))
	}
	sb.WriteString(g.Envelope().String())
	return sb.String()
}

type call struct {
	op   int
	a, b int
	tree int // >=0: tree operation (op = kind)
	q    rtree.Box
}

func (c call) key(w *world) string {
	if c.tree >= 0 {
		return fmt.Sprintf("%s/%d/%v", w.trees[c.tree].name, c.op, c.q)
	}
	if ops[c.op].arity == 1 {
		return fmt.Sprintf("%s(%d)", ops[c.op].name, c.a)
	}
	return fmt.Sprintf("%s(%d,%d)", ops[c.op].name, c.a, c.b)
}

func (c call) run(w *world) (res string) {
	defer func() {
		if r := recover(); r != nil {
			res = fmt.Sprintf("panic:%v", r)
		}
	}()
	if c.tree >= 0 {
		return treeOp(w.trees[c.tree], c.op, c.q)
	}
	return ops[c.op].fn(w.geoms[c.a], w.geoms[c.b])
}

func callList(w *world, seed uint64, nBinary int) []call {
	r := run.NewRng(seed, "c10-calls")
	var cs []call
	for oi, o := range ops {
		if o.arity == 1 {
			for a := range w.geoms {
				cs = append(cs, call{op: oi, a: a, b: a, tree: -1})
			}
		} else {
			for i := 0; i < nBinary; i++ {
				cs = append(cs, call{op: oi, a: r.Intn(len(w.geoms)), b: r.Intn(len(w.geoms)), tree: -1})
			}
		}
	}
	for ti, t := range w.trees {
		for i := 0; i < 40; i++ {
			b := t.boxes[r.Intn(len(t.boxes))]
			q := rtree.Box{MinX: b.MinX - float64(r.Intn(8)), MinY: b.MinY - float64(r.Intn(8)), MaxX: b.MaxX + float64(r.Intn(8)), MaxY: b.MaxY + float64(r.Intn(8))}
			cs = append(cs, call{op: i % 4, tree: ti, q: q})
		}
	}
	return cs
}

func runAll(c *run.Ctx) {
	w := buildWorld(c.Seed, c.N(40, 120))
	calls := callList(w, c.Seed, c.N(60, 400))
	if c.Variant == "race" {
		raceVariant(c, w, calls)
		return
	}
	snaps := make([]string, len(w.geoms))
	for i, g := range w.geoms {
		snaps[i] = snapshot(g)
	}
	for ci, cl := range calls {
		ci, cl := ci, cl
		c.Case("call", ci, func(k *run.K) {
			key := cl.key(w)
			k.In("call", key)
			if cl.tree < 0 {
				k.In("a", shared.WKT(w.geoms[cl.a]))
				if ops[cl.op].arity == 2 {
					k.In("b", shared.WKT(w.geoms[cl.b]))
				}
				if !w.geoms[cl.a].IsEmpty() && !w.geoms[cl.b].IsEmpty() {
					k.Nontrivial(key + snaps[cl.a] + snaps[cl.b])
				}
			} else {
				k.Nontrivial(key)
			}
			first := cl.run(w)
			k.Obs("digest", clip(first))
			k.Check("nopanic", !strings.HasPrefix(first, "panic:"), "%s: %s", key, first)
			reps := 24
			if cl.tree < 0 && heavy[ops[cl.op].name] {
				reps = 64
			}
			if c.Variant != "" {
				reps = 3
			}
			same := true
			other := ""
			for i := 0; i < reps; i++ {
				if r := cl.run(w); r != first {
					same, other = false, r
					break
				}
			}
			k.Check("repeat-identical", same, "%s gives different results on repetition:\n first %s\n later %s", key, clip(first), clip(other))
			k.Count("calls", int64(reps+1))
			if cl.tree < 0 {
				ok := snapshot(w.geoms[cl.a]) == snaps[cl.a] && snapshot(w.geoms[cl.b]) == snaps[cl.b]
				k.Check("operand-unchanged", ok, "%s changed the observable value of an operand", key)
				// no other geometry of the pool (which may share storage with the operands) changed either
				for i, g := range w.geoms {
					if snapshot(g) != snaps[i] {
						k.Check("operand-unchanged", false, "%s changed the observable value of pool geometry %d (not an operand of the call): now %s", key, i, g.AsText())
						snaps[i] = snapshot(g)
					}
				}
			} else {
				t := w.trees[cl.tree]
				e, _ := t.t.Extent()
				k.Check("operand-unchanged", t.t.Count() == t.n && len(t.t.VerifCheck()) == 0 && e.MinX <= e.MaxX, "%s changed the tree", key)
			}
			k.Digest(key, shortHash(first))
		})
	}
	if c.Variant == "" {
		for i := 0; i < c.N(3000, 40000); i++ {
			c.Case("aliasing", i, aliasing)
		}
		for i := 0; i < c.N(400, 4000); i++ {
			c.Case("junction", i, junction)
		}
	}
	// concurrent phase without the race detector as well (determinism under real parallelism)
	c.Case("concurrent", 0, func(k *run.K) {
		k.Nontrivial("concurrent")
		concurrent(k, w, calls, []int{4, 16}, c.N(3000, 20000))
	})
}

// junction: several lineal members that start at, end at and pass through one hub vertex in a random order
// (the vertex's boundary/interior label is accumulated member by member under the mod-2 rule), against a
// probe with an edge or a vertex at the hub. Every map-ordered binary operation is repeated and must give
// the bit-identical answer every time; the labels feed Relate and the predicates.
func junction(k *run.K) {
	r := k.Rng
	hx, hy := float64(r.Range(2, 5)), float64(r.Range(2, 5))
	far := func() (float64, float64) {
		for {
			x, y := float64(r.Range(0, 8)), float64(r.Range(0, 8))
			if x != hx || y != hy {
				return x, y
			}
		}
	}
	var ls []geom.LineString
	for i := r.Range(3, 6); i > 0; i-- {
		x0, y0 := far()
		x1, y1 := far()
		switch r.Intn(3) {
		case 0:
			ls = append(ls, geom.NewLineStringXY(hx, hy, x0, y0))
		case 1:
			ls = append(ls, geom.NewLineStringXY(x0, y0, hx, hy))
		default:
			ls = append(ls, geom.NewLineStringXY(x0, y0, hx, hy, x1, y1))
		}
	}
	var a geom.Geometry
	if r.Bool() {
		a = geom.NewMultiLineString(ls).AsGeometry()
	} else {
		var ms []geom.Geometry
		for _, l := range ls {
			ms = append(ms, l.AsGeometry())
		}
		a = geom.NewGeometryCollection(ms).AsGeometry()
	}
	px, py := far()
	var b geom.Geometry
	switch r.Intn(4) {
	case 0:
		b = geom.NewLineStringXY(hx, hy, px, py).AsGeometry()
	case 1:
		qx, qy := far()
		b = geom.NewLineStringXY(px, py, hx, hy, qx, qy).AsGeometry()
	case 2:
		b = geom.NewPointXY(hx, hy).AsGeometry()
	default:
		b = geom.NewPolygon([]geom.LineString{geom.NewLineStringXY(hx, hy, hx+3, hy, hx+3, hy+3, hx, hy+3, hx, hy)}).AsGeometry()
	}
	k.In("a", a.AsText())
	k.In("b", b.AsText())
	k.Nontrivial(a.AsText() + b.AsText())
	for _, o := range ops {
		if o.arity != 2 || !heavy[o.name] {
			continue
		}
		for _, pair := range [][2]geom.Geometry{{a, b}, {b, a}} {
			x, y := pair[0], pair[1]
			var first string
			same, other := true, ""
			if k.Lib("nopanic", func() {
				first = o.fn(x, y)
				for i := 0; i < 40 && same; i++ {
					if v := o.fn(x, y); v != first {
						same, other = false, v
					}
				}
			}) {
				continue
			}
			k.Check("repeat-identical", same, "%s(%s, %s) gives different results on repetition:\n first %s\n later %s", o.name, x.AsText(), y.AsText(), clip(first), clip(other))
			k.Count("calls", 41)
			k.Count("junction_calls", 41)
		}
	}
}

// aliasing: constructors must not write to the member slice they are given nor keep it (a later write by the
// caller must not show through), and slices returned by accessors must be copies (a write by the caller must
// not change the geometry).
func aliasing(k *run.K) {
	r := k.Rng
	gg := &gen.G{R: r, Cfg: gen.NewCfg(r, gen.DSmall)}
	cts := []geom.CoordinatesType{geom.DimXY, geom.DimXYZ, geom.DimXYM, geom.DimXYZM}
	n := r.Range(1, 4)
	kind := r.Intn(5)
	k.In("constructor", []string{"NewPolygon", "NewMultiPoint", "NewMultiLineString", "NewMultiPolygon", "NewGeometryCollection"}[kind])
	mk := func() geom.Geometry { // a member of the right type with a random coordinate type (mixed inputs get reduced)
		var t geom.GeometryType
		switch kind {
		case 0, 2:
			t = geom.TypeLineString
		case 1:
			t = geom.TypePoint
		case 3:
			t = geom.TypePolygon
		default:
			t = gen.AllTypes[r.Intn(7)]
		}
		x := gg.Typed(t, 0)
		if kind == 0 { // rings: a closed line
			x = gg.Typed(geom.TypePolygon, 0).MustAsPolygon().ExteriorRing().AsGeometry()
		}
		return x.ForceCoordinatesType(cts[r.Intn(4)])
	}
	members := make([]geom.Geometry, n, n+3) // spare capacity: an append by the callee would be visible too
	for i := range members {
		members[i] = mk()
	}
	spare := mk()
	before := make([]string, n)
	for i, m := range members {
		before[i] = snapshot(m)
	}
	var built geom.Geometry
	var poke func(i int, g geom.Geometry)
	var peek func(i int) geom.Geometry
	if k.Lib("nopanic", func() {
		switch kind {
		case 0:
			in := make([]geom.LineString, n, n+3)
			for i, m := range members {
				in[i] = m.MustAsLineString()
			}
			built = geom.NewPolygon(in).AsGeometry()
			peek = func(i int) geom.Geometry { return in[i].AsGeometry() }
			poke = func(i int, g geom.Geometry) { in[i] = g.MustAsLineString() }
		case 1:
			in := make([]geom.Point, n, n+3)
			for i, m := range members {
				in[i] = m.MustAsPoint()
			}
			built = geom.NewMultiPoint(in).AsGeometry()
			peek = func(i int) geom.Geometry { return in[i].AsGeometry() }
			poke = func(i int, g geom.Geometry) { in[i] = g.MustAsPoint() }
		case 2:
			in := make([]geom.LineString, n, n+3)
			for i, m := range members {
				in[i] = m.MustAsLineString()
			}
			built = geom.NewMultiLineString(in).AsGeometry()
			peek = func(i int) geom.Geometry { return in[i].AsGeometry() }
			poke = func(i int, g geom.Geometry) { in[i] = g.MustAsLineString() }
		case 3:
			in := make([]geom.Polygon, n, n+3)
			for i, m := range members {
				in[i] = m.MustAsPolygon()
			}
			built = geom.NewMultiPolygon(in).AsGeometry()
			peek = func(i int) geom.Geometry { return in[i].AsGeometry() }
			poke = func(i int, g geom.Geometry) { in[i] = g.MustAsPolygon() }
		default:
			in := members
			built = geom.NewGeometryCollection(in).AsGeometry()
			peek = func(i int) geom.Geometry { return in[i] }
			poke = func(i int, g geom.Geometry) { in[i] = g }
		}
	}) {
		return
	}
	k.Nontrivial(snapshot(built))
	for i := 0; i < n; i++ {
		k.Check("constructor-aliasing", snapshot(peek(i)) == before[i], "constructor changed element %d of the slice it was given: %s", i, peek(i).AsText())
	}
	snapBuilt := snapshot(built)
	for i := 0; i < n; i++ {
		poke(i, spare)
	}
	k.Check("constructor-aliasing", snapshot(built) == snapBuilt, "the constructed geometry changed when the caller overwrote the slice it had passed in: %s", built.AsText())
	// accessor results are copies
	type acc struct {
		name string
		fn   func() func()
	}
	var accs []acc
	add := func(name string, fn func() func()) { accs = append(accs, acc{name, fn}) }
	add("Dump", func() func() {
		d := built.Dump()
		return func() {
			for i := range d {
				d[i] = spare
			}
		}
	})
	switch {
	case built.IsPolygon():
		add("DumpRings", func() func() {
			d := built.MustAsPolygon().DumpRings()
			return func() {
				for i := range d {
					d[i] = geom.LineString{}
				}
			}
		})
	case built.IsMultiPoint():
		add("MultiPoint.Dump", func() func() {
			d := built.MustAsMultiPoint().Dump()
			return func() {
				for i := range d {
					d[i] = geom.Point{}
				}
			}
		})
	case built.IsMultiLineString():
		add("MultiLineString.Dump", func() func() {
			d := built.MustAsMultiLineString().Dump()
			return func() {
				for i := range d {
					d[i] = geom.LineString{}
				}
			}
		})
		add("Coordinates", func() func() {
			d := built.MustAsMultiLineString().Coordinates()
			return func() {
				for i := range d {
					d[i] = geom.Sequence{}
				}
			}
		})
	case built.IsMultiPolygon():
		add("MultiPolygon.Dump", func() func() {
			d := built.MustAsMultiPolygon().Dump()
			return func() {
				for i := range d {
					d[i] = geom.Polygon{}
				}
			}
		})
		add("Coordinates", func() func() {
			d := built.MustAsMultiPolygon().Coordinates()
			return func() {
				for i := range d {
					for j := range d[i] {
						d[i][j] = geom.Sequence{}
					}
				}
			}
		})
	case built.IsGeometryCollection():
		add("GeometryCollection.Dump", func() func() {
			d := built.MustAsGeometryCollection().Dump()
			return func() {
				for i := range d {
					d[i] = spare
				}
			}
		})
	}
	for _, a := range accs {
		var write func()
		if k.Lib("nopanic", func() { write = a.fn() }) {
			continue
		}
		write()
		k.Check("accessor-aliasing", snapshot(built) == snapBuilt, "writing to the slice returned by %s changed the geometry: %s", a.name, built.AsText())
		k.Count("accessor_slices_overwritten", 1)
	}
}

func shortHash(s string) string {
	if len(s) <= 64 {
		return s
	}
	h := uint64(14695981039346656037)
	for i := 0; i < len(s); i++ {
		h ^= uint64(s[i])
		h *= 1099511628211
	}
	return fmt.Sprintf("%d:%016x:%s", len(s), h, s[:32])
}

func clip(s string) string {
	if len(s) > 300 {
		return s[:300] + "…"
	}
	return s
}

type stamp struct {
	operand    int
	start, end int64
	g          int
}

// concurrent runs goroutines over shared operands with no synchronisation
// between the start barrier and Wait; results are compared afterwards.
func concurrent(k *run.K, w *world, calls []call, configs []int, perConfig int) {
	// sequential reference table (this process)
	ref := make([]string, len(calls))
	for i, cl := range calls {
		ref[i] = cl.run(w)
	}
	snaps := make([]string, len(w.geoms))
	for i, g := range w.geoms {
		snaps[i] = snapshot(g)
	}
	for _, ng := range configs {
		type result struct {
			idx []int
			out []string
			st  []stamp
		}
		res := make([]result, ng)
		per := perConfig / ng
		// per-goroutine call sequences chosen before the barrier
		seqs := make([][]int, ng)
		for g := 0; g < ng; g++ {
			r := run.NewRng(k.Rng.Uint64(), "goroutine", fmt.Sprint(g))
			// few operands, many goroutines: concentrate on a small hot set
			hot := r.Range(3, 8)
			for i := 0; i < per; i++ {
				ci := r.Intn(len(calls))
				if r.Chance(2, 3) {
					for t := 0; t < 20; t++ {
						ci = r.Intn(len(calls))
						if calls[ci].tree >= 0 || calls[ci].a < hot {
							break
						}
					}
				}
				seqs[g] = append(seqs[g], ci)
			}
		}
		start := make(chan struct{})
		var wg sync.WaitGroup
		for g := 0; g < ng; g++ {
			wg.Add(1)
			go func(g int) {
				defer wg.Done()
				my := result{}
				<-start
				for _, ci := range seqs[g] {
					t0 := time.Now().UnixNano()
					out := calls[ci].run(w)
					t1 := time.Now().UnixNano()
					my.idx = append(my.idx, ci)
					my.out = append(my.out, out)
					my.st = append(my.st, stamp{calls[ci].a, t0, t1, g})
				}
				res[g] = my
			}(g)
		}
		close(start)
		wg.Wait()
		mism := 0
		detail := ""
		var stamps []stamp
		for g := 0; g < ng; g++ {
			for i, ci := range res[g].idx {
				if res[g].out[i] != ref[ci] {
					mism++
					if detail == "" {
						detail = fmt.Sprintf("%s: concurrent %s vs sequential %s", calls[ci].key(w), clip(res[g].out[i]), clip(ref[ci]))
					}
				}
			}
			stamps = append(stamps, res[g].st...)
			k.Count("concurrent_calls", int64(len(res[g].idx)))
		}
		k.Check("concurrent-identical", mism == 0, "%d goroutines: %d results differ from the sequential table; %s", ng, mism, detail)
		ok := true
		for i, g := range w.geoms {
			if snapshot(g) != snaps[i] {
				ok = false
			}
		}
		k.Check("operand-unchanged", ok, "an operand changed during the concurrent phase with %d goroutines", ng)
		k.Count("overlapping_call_pairs_on_same_operand", overlaps(stamps))
		k.Distinct("goroutine_configs", fmt.Sprint(ng))
	}
}

// overlaps counts pairs of calls from different goroutines on the same operand
// whose execution intervals overlapped (evidence only).
func overlaps(st []stamp) int64 {
	by := map[int][]stamp{}
	for _, s := range st {
		by[s.operand] = append(by[s.operand], s)
	}
	var n int64
	for _, l := range by {
		sort.Slice(l, func(i, j int) bool { return l[i].start < l[j].start })
		for i := range l {
			for j := i + 1; j < len(l) && l[j].start < l[i].end; j++ {
				if l[j].g != l[i].g {
					n++
				}
			}
			if n > 1e7 {
				return n
			}
		}
	}
	return n
}

func raceVariant(c *run.Ctx, w *world, calls []call) {
	for rep := 0; rep < c.N(1, 5)*c.NShards; rep++ {
		c.Case("race", rep, func(k *run.K) {
			k.Nontrivial(fmt.Sprint("race", k.Index))
			concurrent(k, w, calls, []int{2, 4, 8, 16}, c.N(5000, 20000))
		})
	}
}

var raceHeader = regexp.MustCompile(`WARNING: DATA RACE`)

// post counts race-detector reports from its log files (exit codes are not trusted).
func post(d *run.Driver) {
	files, _ := filepath.Glob(raceLogPrefix() + ".*")
	total := 0
	sites := map[string]int{}
	first := ""
	for _, f := range files {
		b, err := os.ReadFile(f)
		if err != nil {
			continue
		}
		blocks := bytes.Split(b, []byte("=================="))
		for _, blk := range blocks {
			if !raceHeader.Match(blk) {
				continue
			}
			total++
			// dedupe by the outermost library frames of both accesses
			var fr []string
			for _, l := range strings.Split(string(blk), "\n") {
				l = strings.TrimSpace(l)
				if strings.HasPrefix(l, "github.com/peterstace/simplefeatures/") {
					if i := strings.LastIndexByte(l, '('); i > 0 {
						l = l[:i]
					}
					fr = append(fr, strings.TrimPrefix(l, "github.com/peterstace/simplefeatures/"))
				}
			}
			key := "unknown"
			if len(fr) > 0 {
				key = fr[0]
				if len(fr) > 1 {
					key += " / " + fr[len(fr)-1]
				}
			}
			sites[key]++
			if first == "" {
				first = string(blk)
				if len(first) > 3000 {
					first = first[:3000]
				}
			}
		}
	}
	m := d.Agg.Monitors["race-log"]
	if m == nil {
		m = &run.MonStat{}
		d.Agg.Monitors["race-log"] = m
	}
	ranRace := false
	for _, v := range d.Agg.VariantsRun {
		if strings.HasPrefix(v, "variant=race") {
			ranRace = true
		}
	}
	if ranRace {
		m.Checks++
	}
	d.Agg.Counters["race_reports"] = int64(total)
	d.Agg.Counters["race_log_files"] = int64(len(files))
	if total > 0 {
		m.Fails++
		var ks []string
		for k, n := range sites {
			ks = append(ks, fmt.Sprintf("%s x%d", k, n))
		}
		sort.Strings(ks)
		dir := filepath.Join(run.ReplayRoot(d.Root), "C10")
		os.MkdirAll(dir, 0o755)
		path := filepath.Join(dir, "race-report.txt")
		os.WriteFile(path, []byte(strings.Join(ks, "\n")+"\n\n"+first), 0o644)
		d.Agg.Violations = append(d.Agg.Violations, run.Violation{Monitor: "race-log", Class: "", Detail: fmt.Sprintf("%d race report(s) at %d distinct site pair(s): %s", total, len(sites), strings.Join(ks, "; ")), Stream: "race", Replay: path})
	}
}
