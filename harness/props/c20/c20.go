// Package c20 monitors totality and transparency on empty, zero-value and
// mixed-empty geometries: a reflection sweep of every exported method, a table
// of free functions, neutral answers, zero-Geometry vs empty collection, and
// the transparency of inserted empty members.
package c20

import (
	"bytes"
	"encoding/hex"
	"fmt"
	"math"
	"reflect"
	"sort"
	"strings"

	"github.com/peterstace/simplefeatures/geom"

	"verif/exact"
	"verif/gen"
	"verif/props/shared"
	"verif/run"
)

func init() {
	run.Register(&run.Property{
		ID:    "C20",
		Title: "Every operation is total on empty, zero-value and mixed-empty geometries",
		Rule: "cases = (a) every exported method (enumerated by reflection at run time) of Geometry, the seven concrete types, Envelope, Sequence and NullGeometry over an emptiness pool (zero values, typed empties x 4 coordinate types, Multi*/collections of 1..3 empties of mixed types, nested), arguments synthesised per parameter type; (b) a table of the free functions over all ordered pairs of the pool; (c) non-empty geometries of C01's domain with an empty member of every admissible type inserted at every position, compared with the geometry without it on every predicate, matrix, measure, envelope, hull, distance and set-operation point set. " +
			"non-trivial = any call with at least one mixed-empty or typed-empty argument (a), pair (b), or insertion (c); distinct by (method/function, argument WKBs)",
		Assumptions: []string{
			"documented panics are excluded by an explicit table: MustAs* on another type, index accessors (called only with in-range indices, skipped when there is no element), Sequence.Get/GetXY/Slice out of range, Densify with a non-positive distance",
			"Dimension() itself is not compared under insertion of empties (documented to count typed empties); the predicates that consume it are",
		},
		MinNontrivial:    500,
		RequiredMonitors: []string{"nopanic-method", "nopanic-function", "neutral", "zero-vs-emptygc", "transparent-predicates", "transparent-measures", "transparent-setops"},
		Run:              runAll,
	})
}

// ---------- pool ----------

func pool() []geom.Geometry {
	var p []geom.Geometry
	p = append(p, geom.Geometry{})
	for _, t := range gen.AllTypes {
		for _, ct := range gen.AllCTypes {
			p = append(p, gen.EmptyOf(t, ct))
		}
	}
	e := func(t geom.GeometryType) geom.Geometry { return gen.EmptyOf(t, geom.DimXY) }
	p = append(p,
		geom.NewMultiPoint([]geom.Point{geom.NewEmptyPoint(geom.DimXY)}).AsGeometry(),
		geom.NewMultiPoint([]geom.Point{geom.NewEmptyPoint(geom.DimXYZ), geom.NewEmptyPoint(geom.DimXYZ)}).AsGeometry(),
		geom.NewMultiLineString([]geom.LineString{{}, {}}).AsGeometry(),
		geom.NewMultiPolygon([]geom.Polygon{{}}).AsGeometry(),
		geom.NewMultiPolygon([]geom.Polygon{{}, {}, {}}).AsGeometry(),
		geom.NewGeometryCollection([]geom.Geometry{e(geom.TypePoint)}).AsGeometry(),
		geom.NewGeometryCollection([]geom.Geometry{e(geom.TypePolygon), e(geom.TypeLineString)}).AsGeometry(),
		geom.NewGeometryCollection([]geom.Geometry{e(geom.TypeMultiPolygon), e(geom.TypePoint), e(geom.TypeGeometryCollection)}).AsGeometry(),
		geom.NewGeometryCollection([]geom.Geometry{geom.NewGeometryCollection([]geom.Geometry{e(geom.TypeMultiPoint)}).AsGeometry()}).AsGeometry(),
		geom.NewGeometryCollection([]geom.Geometry{geom.NewMultiPoint([]geom.Point{geom.NewEmptyPoint(geom.DimXY)}).AsGeometry(), e(geom.TypeLineString)}).AsGeometry(),
	)
	return p
}

func mixedPool() []geom.Geometry {
	pt := geom.NewPointXY(1, 2)
	ls := geom.NewLineStringXY(0, 0, 2, 2, 2, 0)
	pg := geom.NewPolygonXY([]float64{0, 0, 4, 0, 4, 4, 0, 4, 0, 0})
	return []geom.Geometry{
		geom.NewMultiPoint([]geom.Point{geom.NewEmptyPoint(geom.DimXY), pt}).AsGeometry(),
		geom.NewMultiPoint([]geom.Point{pt, geom.NewEmptyPoint(geom.DimXY)}).AsGeometry(),
		geom.NewMultiLineString([]geom.LineString{{}, ls}).AsGeometry(),
		geom.NewMultiPolygon([]geom.Polygon{{}, pg, {}}).AsGeometry(),
		geom.NewGeometryCollection([]geom.Geometry{gen.EmptyOf(geom.TypePolygon, geom.DimXY), pt.AsGeometry()}).AsGeometry(),
		geom.NewGeometryCollection([]geom.Geometry{ls.AsGeometry(), gen.EmptyOf(geom.TypePoint, geom.DimXY), pg.AsGeometry()}).AsGeometry(),
		geom.NewGeometryCollection([]geom.Geometry{geom.NewGeometryCollection(nil).AsGeometry(), pg.AsGeometry()}).AsGeometry(),
		pt.AsGeometry(), ls.AsGeometry(), pg.AsGeometry(),
	}
}

// ---------- digests ----------

func digest(vals []reflect.Value) string {
	var parts []string
	for _, v := range vals {
		parts = append(parts, digestOne(v.Interface()))
	}
	return strings.Join(parts, " | ")
}

func digestOne(x any) (s string) {
	defer func() {
		if r := recover(); r != nil {
			s = fmt.Sprintf("<digest panic %v>", r)
		}
	}()
	switch t := x.(type) {
	case nil:
		return "nil"
	case geom.Geometry:
		return t.Type().String() + ":" + hex.EncodeToString(t.AsBinary())
	case interface{ AsGeometry() geom.Geometry }:
		return fmt.Sprintf("%T:", x) + hex.EncodeToString(t.AsGeometry().AsBinary())
	case geom.Envelope:
		return t.String()
	case geom.Sequence:
		var sb strings.Builder
		fmt.Fprintf(&sb, "Seq/%v[", t.CoordinatesType())
		for i := 0; i < t.Length(); i++ {
			c := t.Get(i)
			fmt.Fprintf(&sb, "%v %v %v %v;", c.X, c.Y, c.Z, c.M)
		}
		return sb.String() + "]"
	case []geom.Geometry:
		var ps []string
		for _, g := range t {
			ps = append(ps, digestOne(g))
		}
		return "[" + strings.Join(ps, ",") + "]"
	case error:
		return "error"
	case float64:
		return fmt.Sprintf("%x", math.Float64bits(t))
	case []byte:
		return hex.EncodeToString(t)
	case geom.NullGeometry:
		return fmt.Sprintf("Null(%v,%s)", t.Valid, digestOne(t.Geometry))
	}
	rv := reflect.ValueOf(x)
	if rv.Kind() == reflect.Slice {
		var ps []string
		for i := 0; i < rv.Len(); i++ {
			ps = append(ps, digestOne(rv.Index(i).Interface()))
		}
		return "[" + strings.Join(ps, ",") + "]"
	}
	return fmt.Sprintf("%v", x)
}

// ---------- reflection sweep ----------

var (
	tGeometry = reflect.TypeOf(geom.Geometry{})
	tXY       = reflect.TypeOf(geom.XY{})
	tCT       = reflect.TypeOf(geom.DimXY)
	tEnv      = reflect.TypeOf(geom.Envelope{})
	tSeq      = reflect.TypeOf(geom.Sequence{})
	tBytes    = reflect.TypeOf([]byte(nil))
	tFnXY     = reflect.TypeOf(func(geom.XY) geom.XY { return geom.XY{} })
	tPoint    = reflect.TypeOf(geom.Point{})
	tIface    = reflect.TypeOf((*any)(nil)).Elem()
	tCoords   = reflect.TypeOf(geom.Coordinates{})
)

// numElems: how many elements an index accessor may address.
func numElems(recv reflect.Value, method string) (int, bool) {
	call := func(name string) int {
		m := recv.MethodByName(name)
		if !m.IsValid() {
			return 0
		}
		return int(m.Call(nil)[0].Int())
	}
	switch method {
	case "GeometryN":
		return call("NumGeometries"), true
	case "PointN":
		return call("NumPoints"), true
	case "LineStringN":
		return call("NumLineStrings"), true
	case "PolygonN":
		return call("NumPolygons"), true
	case "InteriorRingN":
		return call("NumInteriorRings"), true
	case "Get", "GetXY":
		return call("Length"), true
	}
	return 0, false
}

// documented: panics that the documentation promises.
func documented(recvType, method string, recv geom.Geometry, isGeom bool) bool {
	if strings.HasPrefix(method, "MustAs") && isGeom {
		want := strings.TrimPrefix(method, "MustAs")
		return recv.Type().String() != want
	}
	return false
}

func synth(k *run.K, pt reflect.Type, arg geom.Geometry) (reflect.Value, bool) {
	switch {
	case pt == tGeometry:
		return reflect.ValueOf(arg), true
	case pt == tXY:
		return reflect.ValueOf(geom.XY{X: 1, Y: 2}), true
	case pt == tCT:
		return reflect.ValueOf(geom.DimXYZ), true
	case pt == tEnv:
		return reflect.ValueOf(arg.Envelope()), true
	case pt == tSeq:
		return reflect.ValueOf(arg.DumpCoordinates()), true
	case pt == tBytes:
		return reflect.ValueOf([]byte("x")), true
	case pt == tFnXY:
		return reflect.ValueOf(func(p geom.XY) geom.XY { return geom.XY{X: p.X + 1, Y: p.Y} }), true
	case pt == tPoint:
		return reflect.ValueOf(geom.NewEmptyPoint(geom.DimXY)), true
	case pt == tCoords:
		return reflect.ValueOf(geom.Coordinates{XY: geom.XY{X: 1, Y: 1}}), true
	case pt.Kind() == reflect.Float64:
		return reflect.ValueOf(1.5), true
	case pt.Kind() == reflect.Int:
		return reflect.ValueOf(0), true
	case pt.Kind() == reflect.Bool:
		return reflect.ValueOf(true), true
	case pt.Kind() == reflect.String:
		return reflect.ValueOf("POINT EMPTY"), true
	case pt == tIface:
		return reflect.ValueOf(arg.AsBinary()), true
	case pt.Kind() == reflect.Ptr: // e.g. *areaOptionSet for SignedArea-like option functions: unsupported
		return reflect.Value{}, false
	}
	return reflect.Value{}, false
}

type receiver struct {
	name string
	val  reflect.Value
	g    geom.Geometry
	isG  bool
}

func receivers(g geom.Geometry) []receiver {
	rs := []receiver{{"Geometry", reflect.ValueOf(g), g, true}}
	switch g.Type() {
	case geom.TypePoint:
		rs = append(rs, receiver{"Point", reflect.ValueOf(g.MustAsPoint()), g, false})
	case geom.TypeLineString:
		rs = append(rs, receiver{"LineString", reflect.ValueOf(g.MustAsLineString()), g, false})
	case geom.TypePolygon:
		rs = append(rs, receiver{"Polygon", reflect.ValueOf(g.MustAsPolygon()), g, false})
	case geom.TypeMultiPoint:
		rs = append(rs, receiver{"MultiPoint", reflect.ValueOf(g.MustAsMultiPoint()), g, false})
	case geom.TypeMultiLineString:
		rs = append(rs, receiver{"MultiLineString", reflect.ValueOf(g.MustAsMultiLineString()), g, false})
	case geom.TypeMultiPolygon:
		rs = append(rs, receiver{"MultiPolygon", reflect.ValueOf(g.MustAsMultiPolygon()), g, false})
	case geom.TypeGeometryCollection:
		rs = append(rs, receiver{"GeometryCollection", reflect.ValueOf(g.MustAsGeometryCollection()), g, false})
	}
	rs = append(rs, receiver{"Envelope", reflect.ValueOf(g.Envelope()), g, false},
		receiver{"Sequence", reflect.ValueOf(g.DumpCoordinates()), g, false},
		receiver{"NullGeometry", reflect.ValueOf(geom.NullGeometry{Geometry: g, Valid: true}), g, false})
	return rs
}

// sweep calls every exported method of every receiver derived from g; returns digests by "recv.method".
func sweep(k *run.K, g geom.Geometry, arg geom.Geometry, record map[string]string) {
	for _, rc := range receivers(g) {
		// pointer receiver methods (Scan, UnmarshalJSON) via an addressable copy
		ptr := reflect.New(rc.val.Type())
		ptr.Elem().Set(rc.val)
		for _, v := range []reflect.Value{rc.val, ptr} {
			t := v.Type()
			for i := 0; i < t.NumMethod(); i++ {
				m := t.Method(i)
				if v.Kind() == reflect.Ptr {
					if _, dup := rc.val.Type().MethodByName(m.Name); dup {
						continue
					}
				}
				ft := m.Func.Type()
				var args []reflect.Value
				ok := true
				nIn := ft.NumIn()
				for a := 1; a < nIn; a++ {
					pt := ft.In(a)
					if ft.IsVariadic() && a == nIn-1 {
						continue // no optional arguments
					}
					if pt.Kind() == reflect.Int {
						if n, isIdx := numElems(v, m.Name); isIdx {
							if n == 0 {
								ok = false // documented: no element to address
								break
							}
							args = append(args, reflect.ValueOf(n-1))
							continue
						}
						if m.Name == "Slice" { // Sequence.Slice(i,j): in-range only
							args = append(args, reflect.ValueOf(0))
							continue
						}
					}
					av, can := synth(k, pt, arg)
					if !can {
						ok = false
						k.Count("unsupported_signatures", 1)
						break
					}
					args = append(args, av)
				}
				if !ok {
					k.Skip("nopanic-method")
					continue
				}
				key := rc.name + "." + m.Name
				var out []reflect.Value
				panicked := false
				var pv any
				func() {
					defer func() {
						if r := recover(); r != nil {
							panicked, pv = true, r
						}
					}()
					out = v.Method(i).Call(args)
				}()
				k.Count("method_calls", 1)
				k.Distinct("methods", key)
				if panicked {
					if documented(rc.name, m.Name, rc.g, rc.isG) {
						k.Count("documented_panics", 1)
						continue
					}
					k.CheckClass("nopanic-method", "panic:"+key, false, "%s on %s (argument %s) panicked: %v", key, rc.g.AsText(), arg.AsText(), pv)
					continue
				}
				k.Check("nopanic-method", true, "")
				if record != nil {
					record[key] = digest(out)
				}
			}
		}
	}
}

// ---------- free functions ----------

type ff struct {
	name string
	fn   func(a, b geom.Geometry) string
}

func s(v ...any) string {
	var ps []string
	for _, x := range v {
		ps = append(ps, digestOne(x))
	}
	return strings.Join(ps, "|")
}

var freeFns = []ff{
	{"Union", func(a, b geom.Geometry) string { r, e := geom.Union(a, b); return s(r, e) }},
	{"Intersection", func(a, b geom.Geometry) string { r, e := geom.Intersection(a, b); return s(r, e) }},
	{"Difference", func(a, b geom.Geometry) string { r, e := geom.Difference(a, b); return s(r, e) }},
	{"SymmetricDifference", func(a, b geom.Geometry) string { r, e := geom.SymmetricDifference(a, b); return s(r, e) }},
	{"UnaryUnion", func(a, b geom.Geometry) string { r, e := geom.UnaryUnion(a); return s(r, e) }},
	{"UnionMany", func(a, b geom.Geometry) string { r, e := geom.UnionMany([]geom.Geometry{a, b, a}); return s(r, e) }},
	{"Relate", func(a, b geom.Geometry) string { r, e := geom.Relate(a, b); return s(r, e) }},
	{"Equals", func(a, b geom.Geometry) string { r, e := geom.Equals(a, b); return s(r, e) }},
	{"Disjoint", func(a, b geom.Geometry) string { r, e := geom.Disjoint(a, b); return s(r, e) }},
	{"Touches", func(a, b geom.Geometry) string { r, e := geom.Touches(a, b); return s(r, e) }},
	{"Contains", func(a, b geom.Geometry) string { r, e := geom.Contains(a, b); return s(r, e) }},
	{"Covers", func(a, b geom.Geometry) string { r, e := geom.Covers(a, b); return s(r, e) }},
	{"Within", func(a, b geom.Geometry) string { r, e := geom.Within(a, b); return s(r, e) }},
	{"CoveredBy", func(a, b geom.Geometry) string { r, e := geom.CoveredBy(a, b); return s(r, e) }},
	{"Crosses", func(a, b geom.Geometry) string { r, e := geom.Crosses(a, b); return s(r, e) }},
	{"Overlaps", func(a, b geom.Geometry) string { r, e := geom.Overlaps(a, b); return s(r, e) }},
	{"Intersects", func(a, b geom.Geometry) string { return s(geom.Intersects(a, b)) }},
	{"Distance", func(a, b geom.Geometry) string { d, ok := geom.Distance(a, b); return s(d, ok) }},
	{"ExactEquals", func(a, b geom.Geometry) string {
		return s(geom.ExactEquals(a, b), geom.ExactEquals(a, b, geom.IgnoreOrder), geom.ExactEquals(a, b, geom.ToleranceXY(1)))
	}},
	{"RotatedMinimumAreaBoundingRectangle", func(a, b geom.Geometry) string { return s(geom.RotatedMinimumAreaBoundingRectangle(a)) }},
	{"RotatedMinimumWidthBoundingRectangle", func(a, b geom.Geometry) string { return s(geom.RotatedMinimumWidthBoundingRectangle(a)) }},
	{"MarshalTWKB", func(a, b geom.Geometry) string {
		r, e := geom.MarshalTWKB(a, 2, geom.TWKBSizeHeader(), geom.TWKBBoundingBoxHeader())
		return s(r, e)
	}},
	{"NewGeometryCollection", func(a, b geom.Geometry) string {
		return s(geom.NewGeometryCollection([]geom.Geometry{a, b}).AsGeometry())
	}},
	{"codecs", func(a, b geom.Geometry) string {
		w, e1 := geom.UnmarshalWKB(a.AsBinary())
		t, e2 := geom.UnmarshalWKT(a.AsText())
		j, _ := a.MarshalJSON()
		g, e3 := geom.UnmarshalGeoJSON(j)
		return s(w, e1, t, e2, g, e3)
	}},
}

func freeSweep(k *run.K, a, b geom.Geometry, record map[string]string) {
	for _, f := range freeFns {
		var out string
		panicked := false
		var pv any
		func() {
			defer func() {
				if r := recover(); r != nil {
					panicked, pv = true, r
				}
			}()
			out = f.fn(a, b)
		}()
		k.Count("function_calls", 1)
		if panicked {
			k.CheckClass("nopanic-function", "panic:"+f.name, false, "%s(%s, %s) panicked: %v", f.name, a.AsText(), b.AsText(), pv)
			continue
		}
		k.Check("nopanic-function", true, "")
		if record != nil {
			record[f.name] = out
		}
	}
}

// ---------- neutral answers ----------

func neutral(k *run.K, e geom.Geometry, other geom.Geometry) {
	if k.Lib("nopanic-method", func() {
		k.Check("neutral", e.IsEmpty(), "IsEmpty false for %s", e.AsText())
		k.Check("neutral", e.Area() == 0 && e.Length() == 0, "Area/Length of empty %s = %v/%v", e.AsText(), e.Area(), e.Length())
		k.Check("neutral", e.Centroid().IsEmpty() && e.PointOnSurface().IsEmpty() && e.Envelope().IsEmpty(), "Centroid/PointOnSurface/Envelope of empty %s not empty", e.AsText())
		k.Check("neutral", e.ConvexHull().IsEmpty() && e.Boundary().IsEmpty(), "ConvexHull/Boundary of empty %s not empty", e.AsText())
		k.Check("neutral", e.Validate() == nil, "empty %s fails Validate: %v", e.AsText(), e.Validate())
		_, ok1 := geom.Distance(e, other)
		_, ok2 := geom.Distance(other, e)
		k.Check("neutral", !ok1 && !ok2, "Distance with empty %s reported as defined", e.AsText())
		k.Check("neutral", !geom.Intersects(e, other) && !geom.Intersects(other, e), "Intersects with empty %s true", e.AsText())
		// Union(∅, g) = UnaryUnion(g); Intersection = ∅; Difference(g,∅) = UnaryUnion(g); Difference(∅,g) = ∅
		uu, e0 := geom.UnaryUnion(other)
		u1, e1 := geom.Union(e, other)
		u2, e2 := geom.Union(other, e)
		k.Check("neutral", e0 == nil && e1 == nil && e2 == nil && bytes.Equal(u1.AsBinary(), uu.AsBinary()) && bytes.Equal(u2.AsBinary(), uu.AsBinary()), "Union(∅,g) differs from UnaryUnion(g) for ∅=%s g=%s", e.AsText(), other.AsText())
		i1, _ := geom.Intersection(e, other)
		i2, _ := geom.Intersection(other, e)
		d1, _ := geom.Difference(e, other)
		d2, _ := geom.Difference(other, e)
		x1, _ := geom.SymmetricDifference(e, other)
		k.Check("neutral", i1.IsEmpty() && i2.IsEmpty() && d1.IsEmpty() && bytes.Equal(d2.AsBinary(), uu.AsBinary()) && bytes.Equal(x1.AsBinary(), uu.AsBinary()), "set operations with empty %s and %s are not the neutral answers", e.AsText(), other.AsText())
		// codecs round-trip an empty geometry as empty of the same type
		w, err := geom.UnmarshalWKB(e.AsBinary())
		k.Check("neutral", err == nil && w.IsEmpty() && w.Type() == e.Type() && bytes.Equal(w.AsBinary(), e.AsBinary()), "WKB round trip of empty %s: %v", e.AsText(), err)
		t, err := geom.UnmarshalWKT(e.AsText())
		k.Check("neutral", err == nil && bytes.Equal(t.AsBinary(), e.AsBinary()), "WKT round trip of empty %s: %v", e.AsText(), err)
		j, err := e.MarshalJSON()
		if k.Check("neutral", err == nil, "MarshalJSON of empty %s: %v", e.AsText(), err) {
			g, err := geom.UnmarshalGeoJSON(j)
			k.Check("neutral", err == nil && g.IsEmpty() && g.Type() == e.Type(), "GeoJSON round trip of empty %s: %v %s", e.AsText(), err, j)
		}
		tw, err := geom.MarshalTWKB(e, 1)
		if k.Check("neutral", err == nil, "MarshalTWKB of empty %s: %v", e.AsText(), err) {
			g, err := geom.UnmarshalTWKB(tw)
			k.Check("neutral", err == nil && g.IsEmpty() && g.Type() == e.Type(), "TWKB round trip of empty %s: %v", e.AsText(), err)
		}
	}) {
		return
	}
}

// ---------- transparency ----------

func insertions(r *run.Rng, g geom.Geometry) (h geom.Geometry, variants []geom.Geometry) {
	// h: g itself when it is a Multi type or collection, otherwise a wrapper holding g
	switch g.Type() {
	case geom.TypePoint:
		if r.Bool() {
			h = geom.NewMultiPoint([]geom.Point{g.MustAsPoint()}).AsGeometry()
		}
	case geom.TypeLineString:
		if r.Bool() {
			h = geom.NewMultiLineString([]geom.LineString{g.MustAsLineString()}).AsGeometry()
		}
	case geom.TypePolygon:
		if r.Bool() {
			h = geom.NewMultiPolygon([]geom.Polygon{g.MustAsPolygon()}).AsGeometry()
		}
	default:
		h = g
	}
	if h.IsEmpty() && h.Type() == geom.TypeGeometryCollection && g.Type() != geom.TypeGeometryCollection {
		h = geom.NewGeometryCollection([]geom.Geometry{g}).AsGeometry()
	}
	ms := shared.Members(h)
	var empties []geom.Geometry
	switch h.Type() {
	case geom.TypeMultiPoint:
		empties = []geom.Geometry{gen.EmptyOf(geom.TypePoint, geom.DimXY)}
	case geom.TypeMultiLineString:
		empties = []geom.Geometry{gen.EmptyOf(geom.TypeLineString, geom.DimXY)}
	case geom.TypeMultiPolygon:
		empties = []geom.Geometry{gen.EmptyOf(geom.TypePolygon, geom.DimXY)}
	default:
		for _, t := range gen.AllTypes {
			empties = append(empties, gen.EmptyOf(t, geom.DimXY))
		}
		empties = append(empties, geom.NewMultiPolygon([]geom.Polygon{{}}).AsGeometry(), geom.NewGeometryCollection([]geom.Geometry{gen.EmptyOf(geom.TypeLineString, geom.DimXY)}).AsGeometry())
	}
	for pos := 0; pos <= len(ms); pos++ {
		e := empties[r.Intn(len(empties))]
		nm := append(append(append([]geom.Geometry(nil), ms[:pos]...), e), ms[pos:]...)
		variants = append(variants, shared.WithMembers(h, nm))
	}
	return h, variants
}

func near(a, b, tol float64) bool { return math.Abs(a-b) <= tol }

func samePointSet(a, b geom.Geometry) bool {
	sa, sb := exact.FromGeom(a), exact.FromGeom(b)
	jc := exact.NewJC(sa, sb)
	if jc.Arr.Err != "" {
		return true
	}
	d := jc.Decompose(func(x, y bool) bool { return x != y })
	for _, c := range d.Cells {
		if c.InS {
			return false
		}
	}
	return true
}

func transparency(k *run.K) {
	domain := gen.DSmall
	gg := &gen.G{R: k.Rng, Cfg: gen.NewCfg(k.Rng, domain)}
	g := gg.Typed(gen.AllTypes[k.Rng.Intn(7)], 1)
	other := gg.Any(1)
	// half of the cases put a control point of each operand exactly at the origin (the XY of an empty
	// Point's zero payload); the translation is an exact integer one on this domain
	if k.Rng.Bool() {
		g = shared.AnchorAtOrigin(k.Rng, g)
		if k.Rng.Bool() {
			other = shared.AnchorAtOrigin(k.Rng, other)
		}
		k.Count("origin_anchored", 1)
	}
	h, vars := insertions(k.Rng, g)
	if k.Rng.Chance(2, 5) {
		// nested mode: the empty member is inserted next to the non-empty one inside a sub-collection,
		// or in a sub-collection of its own (depth 2 and 3)
		gc := func(ms ...geom.Geometry) geom.Geometry { return geom.NewGeometryCollection(ms).AsGeometry() }
		var empties []geom.Geometry
		for _, t := range gen.AllTypes {
			empties = append(empties, gen.EmptyOf(t, geom.DimXY))
		}
		e := empties[k.Rng.Intn(len(empties))]
		inner := g
		h = gc(gc(inner))
		vars = []geom.Geometry{gc(gc(inner, e)), gc(gc(e, inner)), gc(gc(inner), e), gc(gc(inner, gc(e))), gc(gc(gc(e), inner))}
		k.Count("nested_insertions", 1)
	}
	k.In("h", shared.WKT(h))
	k.In("other", shared.WKT(other))
	M := math.Max(exact.FromGeom(h).MaxAbs(), exact.FromGeom(other).MaxAbs())
	base := map[string]string{}
	var baseRes map[string]geom.Geometry
	eval := func(x geom.Geometry, rec map[string]string) map[string]geom.Geometry {
		res := map[string]geom.Geometry{}
		for _, order := range []string{"ab", "ba"} {
			a, b := x, other
			if order == "ba" {
				a, b = other, x
			}
			m, _ := geom.Relate(a, b)
			rec["Relate-"+order] = m
			for _, p := range []struct {
				n string
				f func(a, b geom.Geometry) (bool, error)
			}{{"Equals", geom.Equals}, {"Disjoint", geom.Disjoint}, {"Touches", geom.Touches}, {"Contains", geom.Contains}, {"Covers", geom.Covers},
				{"Within", geom.Within}, {"CoveredBy", geom.CoveredBy}, {"Crosses", geom.Crosses}, {"Overlaps", geom.Overlaps}} {
				v, _ := p.f(a, b)
				rec[p.n+"-"+order] = fmt.Sprint(v)
			}
			rec["Intersects-"+order] = fmt.Sprint(geom.Intersects(a, b))
			d, ok := geom.Distance(a, b)
			rec["Distance-"+order] = fmt.Sprintf("%x %v", math.Float64bits(d), ok)
			for _, o := range []struct {
				n string
				f func(a, b geom.Geometry) (geom.Geometry, error)
			}{{"Union", geom.Union}, {"Intersection", geom.Intersection}, {"Difference", geom.Difference}, {"SymmetricDifference", geom.SymmetricDifference}} {
				r, err := o.f(a, b)
				if err == nil {
					res[o.n+"-"+order] = r
				}
			}
		}
		rec["Envelope"] = x.Envelope().String()
		rec["ConvexHull"] = digestOne(x.ConvexHull())
		rec["Area"] = fmt.Sprintf("%x", math.Float64bits(x.Area()))
		rec["Length"] = fmt.Sprintf("%x", math.Float64bits(x.Length()))
		rec["IsEmpty"] = fmt.Sprint(x.IsEmpty())
		rec["Intersects-self"] = fmt.Sprint(geom.Intersects(x, x))
		uu, err := geom.UnaryUnion(x)
		if err == nil {
			res["UnaryUnion"] = uu
		}
		return res
	}
	if k.Lib("nopanic-function", func() { baseRes = eval(h, base) }) {
		return
	}
	for vi, v := range vars {
		k.Nontrivial(string(v.AsBinary()) + "|" + string(other.AsBinary()))
		rec := map[string]string{}
		var res map[string]geom.Geometry
		if k.Lib("nopanic-function", func() { res = eval(v, rec) }) {
			continue
		}
		var keys []string
		for key := range base {
			keys = append(keys, key)
		}
		sort.Strings(keys)
		for _, key := range keys {
			mon := "transparent-predicates"
			switch key {
			case "Envelope", "ConvexHull", "Area", "Length", "IsEmpty":
				mon = "transparent-measures"
			}
			if strings.HasPrefix(key, "Distance") {
				mon = "transparent-measures"
			}
			k.Check(mon, rec[key] == base[key], "%s changes from %s to %s when an empty member is inserted (variant %d): %s vs %s (other %s)", key, base[key], rec[key], vi, h.AsText(), v.AsText(), other.AsText())
		}
		// centroid / point on surface within tolerance
		c0, ok0 := h.Centroid().XY()
		c1, ok1 := v.Centroid().XY()
		k.Check("transparent-measures", ok0 == ok1 && (!ok0 || (near(c0.X, c1.X, 1e-9*M) && near(c0.Y, c1.Y, 1e-9*M))), "Centroid changes from %v to %v with an empty member: %s", c0, c1, v.AsText())
		p1 := v.PointOnSurface()
		k.Check("transparent-measures", p1.IsEmpty() == h.PointOnSurface().IsEmpty() && (p1.IsEmpty() || geom.Intersects(p1.AsGeometry(), h)), "PointOnSurface %s of %s does not lie on the geometry", p1.AsText(), v.AsText())
		for key, r0 := range baseRes {
			r1, ok := res[key]
			if !ok {
				k.Check("transparent-setops", false, "%s fails when an empty member is inserted: %s", key, v.AsText())
				continue
			}
			k.Check("transparent-setops", samePointSet(r0, r1), "%s point set changes with an empty member: %s vs %s (inputs %s / %s, other %s)", key, r0.AsText(), r1.AsText(), h.AsText(), v.AsText(), other.AsText())
		}
	}
}

func runAll(c *run.Ctx) {
	p := pool()
	mp := mixedPool()
	all := append(append([]geom.Geometry(nil), p...), mp...)
	// (a) method sweep: every pool member as receiver, a few arguments
	for i, g := range all {
		c.Case("methods", i, func(k *run.K) {
			k.In("receiver", shared.WKT(g))
			k.Nontrivial("m" + fmt.Sprint(i))
			for j := 0; j < len(all); j += 1 + len(all)/8 {
				sweep(k, g, all[(i+j)%len(all)], nil)
			}
		})
	}
	// zero Geometry behaves like an explicitly constructed empty GeometryCollection
	c.Case("zero-vs-emptygc", 0, func(k *run.K) {
		k.Nontrivial("zero")
		for _, arg := range all {
			ra, rb := map[string]string{}, map[string]string{}
			sweep(k, geom.Geometry{}, arg, ra)
			sweep(k, geom.GeometryCollection{}.AsGeometry(), arg, rb)
			sweep(k, geom.NewGeometryCollection(nil).AsGeometry(), arg, nil)
			for key, va := range ra {
				if strings.HasPrefix(key, "NullGeometry.") {
					continue
				}
				k.Check("zero-vs-emptygc", va == rb[key], "%s differs between the zero Geometry and GeometryCollection{}.AsGeometry(): %s vs %s", key, va, rb[key])
			}
			fa, fb := map[string]string{}, map[string]string{}
			freeSweep(k, geom.Geometry{}, arg, fa)
			freeSweep(k, geom.GeometryCollection{}.AsGeometry(), arg, fb)
			for key, va := range fa {
				k.Check("zero-vs-emptygc", va == fb[key], "%s(zero, x) differs from %s(GeometryCollection{}, x): %s vs %s", key, key, va, fb[key])
			}
			fa, fb = map[string]string{}, map[string]string{}
			freeSweep(k, arg, geom.Geometry{}, fa)
			freeSweep(k, arg, geom.GeometryCollection{}.AsGeometry(), fb)
			for key, va := range fa {
				k.Check("zero-vs-emptygc", va == fb[key], "%s(x, zero) differs from %s(x, GeometryCollection{}): %s vs %s", key, key, va, fb[key])
			}
		}
	})
	// (b) free functions over all ordered pairs
	for i, a := range all {
		c.Case("functions", i, func(k *run.K) {
			k.In("first", shared.WKT(a))
			k.Nontrivial("f" + fmt.Sprint(i))
			for _, b := range all {
				freeSweep(k, a, b, nil)
			}
		})
	}
	// neutral answers
	for i, e := range p {
		c.Case("neutral", i, func(k *run.K) {
			k.In("empty", shared.WKT(e))
			k.Nontrivial("n" + fmt.Sprint(i))
			for _, o := range mp {
				neutral(k, e, o)
			}
			gg := &gen.G{R: k.Rng, Cfg: gen.NewCfg(k.Rng, gen.DSmall)}
			for j := 0; j < 10; j++ {
				neutral(k, e, gg.Any(1))
			}
		})
	}
	// (c) transparency of inserted empty members
	for i := 0; i < c.N(2500, 60000); i++ {
		c.Case("transparency", i, transparency)
	}
}
