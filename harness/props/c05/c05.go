// Package c05 monitors WKT output and parsing against the tree model, a
// strict OGC-grammar parser and an independent printer with re-spellings.
package c05

import (
	"bytes"
	"fmt"
	"math"
	"strconv"
	"strings"

	"github.com/peterstace/simplefeatures/geom"

	"verif/codec"
	"verif/model"
	"verif/props/shared"
	"verif/run"
)

func init() {
	run.Register(&run.Property{
		ID:    "C05",
		Title: "WKT text is a faithful, re-parseable rendering of every geometry",
		Rule: "[added in rounds 9-11: closing points equal under == but differing in zero signs] cases = arbitrary homogeneous geometry trees over 7 types x 4 coordinate types with empty members at every position, nesting <= 4 and finite ordinates over all float64 classes (subnormal, 1e308, -0, 17-digit), plus the zero value of every Go geometry type; each case checks AsText/AppendWKT, the round trip, a strict OGC-grammar parse of the library's text, shortest numerals without exponents, 16 token-level re-spellings from an independent printer, trailing-token rejection and WKT-vs-WKB agreement. " +
			"non-trivial = tree with >= 2 nodes, a non-XY coordinate type or an empty member; distinct by canonical WKB",
		Assumptions:      []string{"bitwise tree comparison; the strict parser and the printer in verif/codec are written from the OGC WKT BNF; numerals are converted exactly with math/big"},
		MinNontrivial:    500,
		RequiredMonitors: []string{"roundtrip", "grammar", "shortest", "append-prefix", "respell", "trailing-token", "wkt-vs-wkb", "zero-value", "concrete-entry"},
		Run:              runAll,
	})
}

func treeOf(g geom.Geometry) model.Tree { t, _ := model.FromGeom(g); return t }

func checkTree(k *run.K, t model.Tree) {
	var g geom.Geometry
	if k.Lib("nopanic", func() { g = model.ToGeom(t) }) {
		return
	}
	k.In("tree", t.String())
	if got := treeOf(g); !model.Equal(got, t) {
		k.Skip("roundtrip") // constructor behaviour is C16's subject
		k.Count("construct_mismatch", 1)
		return
	}
	if t.CountNodes() >= 2 || t.CT != geom.DimXY || !t.HasOrdinate() {
		k.Nontrivial(string(codec.EncodeWKB(t)))
	}
	var text string
	if k.Lib("nopanic", func() { text = g.AsText() }) {
		return
	}
	shared.ConcreteAgree(k, g, "concrete-entry", []shared.Call{{Method: "AsText"}, {Method: "AppendWKT", Args: []any{[]byte("prefix")}}, {Method: "String"}}, nil)
	k.In("wkt", text)
	// (a) round trip
	var back geom.Geometry
	var err error
	if k.Lib("nopanic", func() { back, err = geom.UnmarshalWKT(text, geom.NoValidate{}) }) {
		return
	}
	if err == nil {
		hp := shared.HiddenPayload(back)
		k.Check("roundtrip", hp == "", "UnmarshalWKT: %s", hp)
	}
	if k.Check("roundtrip", err == nil, "UnmarshalWKT(AsText) error: %v", err) {
		bt, iss := model.FromGeom(back)
		k.Check("roundtrip", model.Equal(bt, t) && len(iss) == 0, "parse(AsText(g)) differs: %s %v", model.Diff(bt, t), iss)
	}
	// (b) strict grammar + shortest numerals
	st, nums, perr := codec.ParseWKTStrict(text)
	k.Check("grammar", perr == nil && model.Equal(st, t), "strict OGC parser on AsText: err=%v diff=%s", perr, model.Diff(st, t))
	if perr == nil {
		okShort := true
		bad := ""
		var flat []float64
		var walk func(n model.Tree)
		walk = func(n model.Tree) {
			flat = append(flat, n.Coords...)
			for _, c := range n.Kids {
				walk(c)
			}
		}
		walk(t)
		if len(flat) == len(nums) {
			for i, s := range nums {
				v := flat[i]
				// shortest: same number of significant digits as the shortest round-trip representation
				want := strconv.FormatFloat(v, 'f', -1, 64)
				if s != want || strings.ContainsAny(s, "eE") {
					okShort, bad = false, fmt.Sprintf("%q for %v (want %q)", s, v, want)
				}
				if sigDigits(s) != sigDigits(strconv.FormatFloat(v, 'e', -1, 64)) {
					okShort, bad = false, fmt.Sprintf("%q has %d significant digits", s, sigDigits(s))
				}
			}
		} else {
			okShort, bad = false, fmt.Sprintf("%d numerals for %d ordinates", len(nums), len(flat))
		}
		k.Check("shortest", okShort, "numeral not the shortest positional round-trip form: %s", bad)
	}
	// (c) AppendWKT(prefix) == prefix || AsText
	for _, p := range []string{"\x00nil", "", "x", "(", ",", " ", "POINT"} {
		var pre []byte
		if p != "\x00nil" {
			pre = []byte(p)
		}
		want := string(pre) + text
		var out []byte
		if k.Lib("nopanic", func() { out = g.AppendWKT(pre) }) {
			continue
		}
		k.Check("append-prefix", string(out) == want, "AppendWKT(%q) = %q, want %q", string(pre), out, want)
	}
	// (d) re-spellings from the independent printer
	for i := 0; i < 16; i++ {
		sp := codec.Spelling{R: k.Rng, LowerCase: i&1 == 1, Whitespace: i&2 == 2, BareMP: i&4 == 4, Exponent: i&8 == 8}
		txt := sp.Print(t)
		var rg geom.Geometry
		var rerr error
		if k.Lib("nopanic", func() { rg, rerr = geom.UnmarshalWKT(txt, geom.NoValidate{}) }) {
			continue
		}
		ok := rerr == nil
		d := ""
		if ok {
			d = model.Diff(treeOf(rg), t)
			ok = d == ""
		}
		k.Check("respell", ok, "re-spelling (case=%v ws=%v bare=%v exp=%v) %q: err=%v diff=%s", sp.LowerCase, sp.Whitespace, sp.BareMP, sp.Exponent, clip(txt), rerr, d)
	}
	// (e) any extra token makes parsing fail
	for _, extra := range []string{" x", ")", " 1", ",", " POINT(1 2)", "(", " EMPTY", " 0 0"} {
		var terr error
		if k.Lib("nopanic", func() { _, terr = geom.UnmarshalWKT(text+extra, geom.NoValidate{}) }) {
			continue
		}
		k.Check("trailing-token", terr != nil, "UnmarshalWKT accepted %q", clip(text+extra))
	}
	// (f) WKT and WKB of the same geometry decode to the same value
	var fromWKB geom.Geometry
	var werr error
	if !k.Lib("nopanic", func() { fromWKB, werr = geom.UnmarshalWKB(g.AsBinary(), geom.NoValidate{}) }) && err == nil && werr == nil {
		k.Check("wkt-vs-wkb", bytes.Equal(fromWKB.AsBinary(), back.AsBinary()), "geometry from WKT differs from geometry from WKB")
	}
}

func sigDigits(s string) int {
	s = strings.ToLower(s)
	if i := strings.IndexByte(s, 'e'); i >= 0 {
		s = s[:i]
	}
	s = strings.TrimLeft(s, "-+")
	s = strings.Replace(s, ".", "", 1)
	s = strings.TrimLeft(s, "0")
	s = strings.TrimRight(s, "0")
	return len(s)
}

func clip(s string) string {
	if len(s) > 300 {
		return s[:300] + "…"
	}
	return s
}

type textual interface {
	AsText() string
	AppendWKT([]byte) []byte
}

func zeroValues(k *run.K) {
	zs := []struct {
		name string
		v    textual
		want string
	}{
		{"Geometry{}", geom.Geometry{}, "GEOMETRYCOLLECTION EMPTY"},
		{"Point{}", geom.Point{}, "POINT EMPTY"},
		{"LineString{}", geom.LineString{}, "LINESTRING EMPTY"},
		{"Polygon{}", geom.Polygon{}, "POLYGON EMPTY"},
		{"MultiPoint{}", geom.MultiPoint{}, "MULTIPOINT EMPTY"},
		{"MultiLineString{}", geom.MultiLineString{}, "MULTILINESTRING EMPTY"},
		{"MultiPolygon{}", geom.MultiPolygon{}, "MULTIPOLYGON EMPTY"},
		{"GeometryCollection{}", geom.GeometryCollection{}, "GEOMETRYCOLLECTION EMPTY"},
	}
	for _, z := range zs {
		var text string
		class := "zero-" + z.name
		if k.Lib("zero-value", func() { text = z.v.AsText() }) {
			continue
		}
		k.CheckClass("zero-value", class, text == z.want, "%s.AsText() = %q", z.name, text)
		for _, p := range []string{"", "x", "(", " "} {
			var out []byte
			panicked := false
			func() {
				defer func() {
					if r := recover(); r != nil {
						panicked = true
						k.CheckClass("zero-value", class+"-AppendWKT-panic", false, "%s.AppendWKT(%q) panicked: %v", z.name, p, r)
					}
				}()
				out = z.v.AppendWKT([]byte(p))
			}()
			if !panicked {
				k.CheckClass("zero-value", class, string(out) == p+text, "%s.AppendWKT(%q) = %q, want %q", z.name, p, out, p+text)
			}
		}
		g, err := geom.UnmarshalWKT(z.want)
		k.CheckClass("zero-value", class, err == nil && g.IsEmpty() && g.AsText() == z.want, "UnmarshalWKT(%q): %v", z.want, err)
	}
	_ = math.Pi
}

func runAll(c *run.Ctx) {
	c.Case("zero-values", 0, func(k *run.K) {
		k.In("note", "zero value of every Go geometry type")
		zeroValues(k)
	})
	idx := 0
	for _, typ := range model.Types {
		for _, ct := range model.CTypes {
			idx++
			c.Case("typed-empty", idx, func(k *run.K) { checkTree(k, model.Tree{Type: typ, CT: ct}) })
		}
	}
	// curves of every length 1..140 (and around 256, 512, 1024) followed by further curves: every
	// length a parser's reusable buffers can have
	idx = 0
	sizes := []int{254, 255, 256, 257, 258, 511, 512, 513, 1023, 1024, 1025}
	for n := 1; n <= 140; n++ {
		sizes = append(sizes, n)
	}
	for _, n := range sizes {
		for _, ct := range model.CTypes {
			for kind := 0; kind < 3; kind++ {
				idx++
				n, ct, kind := n, ct, kind
				c.Case("sized", idx, func(k *run.K) { checkTree(k, model.SizedTree(kind, n, ct)) })
			}
		}
	}
	cidx := 0
	for _, cn := range []int{255, 256, 257, 1023, 1024, 1025, 2049} {
		for _, kind := range []int{3, 4, 5} {
			cidx++
			cn, kind := cn, kind
			ct := model.CTypes[cidx%4]
			c.Case("counts", cidx, func(k *run.K) { checkTree(k, model.SizedTree(kind, cn, ct)) })
		}
	}
	for i := 0; i < c.N(30000, 300000); i++ {
		c.Case("tree", i, func(k *run.K) {
			typ := model.Types[k.Rng.Intn(7)]
			ct := model.CTypes[k.Rng.Intn(4)]
			t := model.RandTree(k.Rng, typ, ct, 3, model.ValueOpts{})
			checkTree(k, t)
		})
	}
}
