// Package c14 monitors Area, Length and Centroid against exact rational /
// 200-bit evaluation and their invariances.
package c14

import (
	"math"
	"math/big"

	"github.com/peterstace/simplefeatures/geom"

	"verif/exact"
	"verif/gen"
	"verif/props/shared"
	"verif/run"
)

func init() {
	run.Register(&run.Property{
		ID:    "C14",
		Title: "Area, Length and Centroid equal the exact measures of the point set",
		Rule: "[added in rounds 9-11: non-affine transform option; invariance under independent Z/M at every control point] cases = valid geometries of every type x coordinate type with 0-3 holes, empty members and mixed-dimension collections from D-small/D-large/D-gp; each case compares Area (plain, signed, with transform), Length and Centroid with exact rational / 200-bit values and checks invariance under ring rotation, Reverse, ForceCW/CCW, member permutation and Z/M changes, additivity over members and translation behaviour. " +
			"non-trivial = geometry with positive area or length; distinct by WKB",
		Assumptions:      []string{"tolerance 1e-9*M (1e-9*M^2 for area) as the statement gives", "collections are measured additively over members (overlapping members count twice), as Area/Length are documented"},
		MinNontrivial:    500,
		RequiredMonitors: []string{"area", "signed", "length", "centroid", "invariance", "additivity", "translation", "transform", "concrete-entry"},
		Run:              runAll,
	})
}

func rat(f float64) *big.Rat { return new(big.Rat).SetFloat64(f) }

type measures struct {
	area   *big.Rat
	ax, ay *big.Rat // area-weighted first moments (times 1): sum A_i * c_i
	length *big.Float
	lx, ly *big.Float // length-weighted first moments
	npts   int
	px, py *big.Rat
	maxAbs float64
}

func newMeasures() *measures {
	f := func() *big.Float { return new(big.Float).SetPrec(200) }
	return &measures{area: new(big.Rat), ax: new(big.Rat), ay: new(big.Rat), length: f(), lx: f(), ly: f(), px: new(big.Rat), py: new(big.Rat), maxAbs: 1}
}

func (m *measures) see(p geom.XY) {
	m.maxAbs = math.Max(m.maxAbs, math.Max(math.Abs(p.X), math.Abs(p.Y)))
}

// ring contributes signed area and moments (shoelace); returned signed.
func ringMoments(s geom.Sequence) (a2, mx6, my6 *big.Rat) {
	a2, mx6, my6 = new(big.Rat), new(big.Rat), new(big.Rat)
	n := s.Length()
	for i := 0; i+1 < n; i++ {
		p, q := s.GetXY(i), s.GetXY(i+1)
		px, py, qx, qy := rat(p.X), rat(p.Y), rat(q.X), rat(q.Y)
		cr := new(big.Rat).Sub(new(big.Rat).Mul(px, qy), new(big.Rat).Mul(qx, py))
		a2.Add(a2, cr)
		mx6.Add(mx6, new(big.Rat).Mul(new(big.Rat).Add(px, qx), cr))
		my6.Add(my6, new(big.Rat).Mul(new(big.Rat).Add(py, qy), cr))
	}
	return
}

func (m *measures) add(g geom.Geometry) {
	switch g.Type() {
	case geom.TypePoint:
		if xy, ok := g.MustAsPoint().XY(); ok {
			m.see(xy)
			m.npts++
			m.px.Add(m.px, rat(xy.X))
			m.py.Add(m.py, rat(xy.Y))
		}
	case geom.TypeLineString:
		s := g.MustAsLineString().Coordinates()
		for i := 0; i < s.Length(); i++ {
			m.see(s.GetXY(i))
		}
		for i := 0; i+1 < s.Length(); i++ {
			p, q := s.GetXY(i), s.GetXY(i+1)
			dx, dy := new(big.Rat).Sub(rat(q.X), rat(p.X)), new(big.Rat).Sub(rat(q.Y), rat(p.Y))
			d2 := new(big.Rat).Add(new(big.Rat).Mul(dx, dx), new(big.Rat).Mul(dy, dy))
			l := exact.SqrtBig(d2)
			m.length.Add(m.length, l)
			mxm := new(big.Float).SetPrec(200).SetRat(new(big.Rat).Mul(new(big.Rat).Add(rat(p.X), rat(q.X)), big.NewRat(1, 2)))
			mym := new(big.Float).SetPrec(200).SetRat(new(big.Rat).Mul(new(big.Rat).Add(rat(p.Y), rat(q.Y)), big.NewRat(1, 2)))
			m.lx.Add(m.lx, new(big.Float).SetPrec(200).Mul(l, mxm))
			m.ly.Add(m.ly, new(big.Float).SetPrec(200).Mul(l, mym))
		}
	case geom.TypePolygon:
		p := g.MustAsPolygon()
		if p.IsEmpty() {
			return
		}
		for i, r := range p.DumpRings() {
			s := r.Coordinates()
			for j := 0; j < s.Length(); j++ {
				m.see(s.GetXY(j))
			}
			a2, mx6, my6 := ringMoments(s)
			// orient so that the ring's own area is positive, then subtract holes
			if a2.Sign() < 0 {
				a2.Neg(a2)
				mx6.Neg(mx6)
				my6.Neg(my6)
			}
			if i > 0 {
				a2.Neg(a2)
				mx6.Neg(mx6)
				my6.Neg(my6)
			}
			m.area.Add(m.area, new(big.Rat).Mul(a2, big.NewRat(1, 2)))
			m.ax.Add(m.ax, new(big.Rat).Mul(mx6, big.NewRat(1, 6)))
			m.ay.Add(m.ay, new(big.Rat).Mul(my6, big.NewRat(1, 6)))
		}
	default:
		for _, x := range shared.Members(g) {
			m.add(x)
		}
	}
}

func (m *measures) centroid() (x, y float64, ok bool) {
	switch {
	case m.area.Sign() > 0:
		return exact.F(new(big.Rat).Quo(m.ax, m.area)), exact.F(new(big.Rat).Quo(m.ay, m.area)), true
	case m.length.Sign() > 0:
		fx, _ := new(big.Float).SetPrec(200).Quo(m.lx, m.length).Float64()
		fy, _ := new(big.Float).SetPrec(200).Quo(m.ly, m.length).Float64()
		return fx, fy, true
	case m.npts > 0:
		n := new(big.Rat).SetInt64(int64(m.npts))
		return exact.F(new(big.Rat).Quo(m.px, n)), exact.F(new(big.Rat).Quo(m.py, n)), true
	}
	return 0, 0, false
}

func near(a, b, tol float64) bool { return math.Abs(a-b) <= tol } // false for NaN

func one(k *run.K) {
	domain := shared.PickDomain(k.Rng)
	gg := &gen.G{R: k.Rng, Cfg: gen.NewCfg(k.Rng, domain)}
	g := gg.Rich(2)
	k.In("domain", domain)
	k.In("g", shared.WKT(g))
	ms := newMeasures()
	ms.add(g)
	M := ms.maxAbs
	wantA := exact.F(ms.area)
	wantL, _ := ms.length.Float64()
	if wantA > 0 || wantL > 0 {
		k.Nontrivial(string(g.AsBinary()))
	}
	tolA, tolL := 1e-9*M*M, 1e-9*M
	gotA, gotL := g.Area(), g.Length()
	shared.ConcreteAgree(k, g, "concrete-entry", []shared.Call{{Method: "Area"}, {Method: "Length"}, {Method: "Centroid"}}, nil)
	k.Obs("area", gotA)
	k.Obs("exact_area", wantA)
	k.Check("area", near(gotA, wantA, tolA), "Area()=%.15g, exact %.15g", gotA, wantA)
	k.Check("length", near(gotL, wantL, tolL), "Length()=%.15g, exact %.15g", gotL, wantL)
	// signed area
	ccw, cw := g.ForceCCW(), g.ForceCW()
	k.Check("signed", near(ccw.Area(geom.SignedArea), wantA, tolA), "SignedArea(ForceCCW)=%.15g, want +%.15g", ccw.Area(geom.SignedArea), wantA)
	k.Check("signed", near(cw.Area(geom.SignedArea), -wantA, tolA), "SignedArea(ForceCW)=%.15g, want -%.15g", cw.Area(geom.SignedArea), wantA)
	k.Check("signed", near(ccw.Reverse().Area(geom.SignedArea), -ccw.Area(geom.SignedArea), tolA), "SignedArea not negated by Reverse")
	// centroid
	cx, cy, cok := ms.centroid()
	c := g.Centroid()
	cxy, ok := c.XY()
	okc := ok == cok && c.CoordinatesType() == geom.DimXY
	if okc && ok {
		okc = near(cxy.X, cx, tolL) && near(cxy.Y, cy, tolL)
	}
	k.Obs("centroid", c.AsText())
	k.Check("centroid", okc, "Centroid()=%s, exact (%.15g %.15g) defined=%v", c.AsText(), cx, cy, cok)
	// invariances
	rot := shared.Rebuild(g, nil, func(s geom.Sequence) geom.Sequence { return shared.RotateRing(s, 1+k.Rng.Intn(5)) })
	variants := map[string]geom.Geometry{
		"ring rotation": rot, "Reverse": g.Reverse(), "ForceCW": cw, "ForceCCW": ccw, "permute": shared.Permute(k.Rng, g),
		"Force2D": g.Force2D(), "ForceXYZM": g.ForceCoordinatesType(geom.DimXYZM),
		"independent Z/M at every control point": shared.Payload(k.Rng, g, shared.PayloadCT(k.Rng)),
	}
	for name, v := range variants {
		okv := near(v.Area(), gotA, tolA) && near(v.Length(), gotL, tolL)
		vc, vok := v.Centroid().XY()
		if vok != ok {
			okv = false
		} else if ok {
			okv = okv && near(vc.X, cxy.X, tolL) && near(vc.Y, cxy.Y, tolL)
		}
		k.Check("invariance", okv, "measures change under %s: area %.15g->%.15g length %.15g->%.15g centroid %s->%s", name, gotA, v.Area(), gotL, v.Length(), c.AsText(), v.Centroid().AsText())
	}
	// additivity
	if mem := shared.Members(g); mem != nil {
		sa, sl := 0.0, 0.0
		for _, x := range mem {
			sa += x.Area()
			sl += x.Length()
		}
		k.Check("additivity", near(sa, gotA, tolA) && near(sl, gotL, tolL), "Area/Length not additive over members: %.15g vs %.15g, %.15g vs %.15g", sa, gotA, sl, gotL)
	}
	// translation by an integer vector
	tx, ty := float64(k.Rng.Range(-500, 500)), float64(k.Rng.Range(-500, 500))
	t := g.TransformXY(func(p geom.XY) geom.XY { return geom.XY{X: p.X + tx, Y: p.Y + ty} })
	M2 := M + 500
	tc, tok := t.Centroid().XY()
	okt := near(t.Area(), gotA, 1e-9*M2*M2) && near(t.Length(), gotL, 1e-9*M2) && tok == ok
	if okt && ok {
		okt = near(tc.X, cxy.X+tx, 1e-9*M2) && near(tc.Y, cxy.Y+ty, 1e-9*M2)
	}
	k.Check("translation", okt, "translation by (%g,%g): area %.15g->%.15g length %.15g->%.15g centroid %s->%s", tx, ty, gotA, t.Area(), gotL, t.Length(), c.AsText(), t.Centroid().AsText())
	// area with an affine transform option
	a, b, cc, d := float64(k.Rng.Range(-3, 3)), float64(k.Rng.Range(-3, 3)), float64(k.Rng.Range(-3, 3)), float64(k.Rng.Range(-3, 3))
	f := func(p geom.XY) geom.XY { return geom.XY{X: a*p.X + b*p.Y + 7, Y: cc*p.X + d*p.Y - 2} }
	at := g.Area(geom.WithTransform(f))
	ta := g.TransformXY(f).Area()
	det := math.Abs(a*d - b*cc)
	M3 := 6*M + 7
	k.Check("transform", near(at, ta, 1e-9*M3*M3) && near(at, wantA*det, 1e-9*M3*M3), "Area(WithTransform)=%.15g, TransformXY().Area()=%.15g, exact %.15g", at, ta, wantA*det)
	// a transform that is not affine (what a map projection is): the option must still give the area of the
	// transformed geometry - the callback has to see the control points themselves, each exactly once per use
	{
		p, q := float64(k.Rng.Range(1, 3)), float64(k.Rng.Range(-2, 2))
		off := 2*M + 16
		nf := func(xy geom.XY) geom.XY { return geom.XY{X: xy.X + q*xy.Y, Y: xy.Y * (p*xy.X + off) / off} }
		an := g.Area(geom.WithTransform(nf))
		tn := g.TransformXY(nf).Area()
		sn := ccw.Area(geom.WithTransform(nf), geom.SignedArea)
		tsn := ccw.TransformXY(nf).Area(geom.SignedArea)
		M4 := 8*M + 16
		k.Check("transform", near(an, tn, 1e-9*M4*M4) && near(sn, tsn, 1e-9*M4*M4), "non-affine transform: Area(WithTransform)=%.15g but TransformXY().Area()=%.15g; signed %.15g vs %.15g", an, tn, sn, tsn)
	}
	// both options together, in either order: the signed area of the transformed geometry
	sdet := a*d - b*cc
	s1 := ccw.Area(geom.SignedArea, geom.WithTransform(f))
	s2 := ccw.Area(geom.WithTransform(f), geom.SignedArea)
	s3 := ccw.TransformXY(f).Area(geom.SignedArea)
	k.Check("transform", near(s1, wantA*sdet, 1e-9*M3*M3) && near(s2, wantA*sdet, 1e-9*M3*M3) && near(s3, wantA*sdet, 1e-9*M3*M3),
		"signed area with transform (det %g): SignedArea,WithTransform=%.15g WithTransform,SignedArea=%.15g TransformXY().Area(SignedArea)=%.15g, exact %.15g", sdet, s1, s2, s3, wantA*sdet)
}

func runAll(c *run.Ctx) {
	for i := 0; i < c.N(12000, 250000); i++ {
		c.Case("geom", i, one)
	}
}
