// Package c07 monitors TWKB: decode(encode(g,p)) against exact snapping, the
// headers against an independent varint-level reader, header-only readers,
// and the closed world of admissible errors.
package c07

import (
	"bytes"
	"fmt"
	"math"
	"math/big"

	"github.com/peterstace/simplefeatures/geom"

	"verif/codec"
	"verif/exact"
	"verif/gen"
	"verif/model"
	"verif/run"
)

func init() {
	run.Register(&run.Property{
		ID:    "C07",
		Title: "TWKB decode(encode(g,p)) is g rounded to p places; its headers tell the truth",
		Rule: "[added in rounds 9-11: no-ordinate: every shape without ordinates x 4 coordinate types x all 16 option subsets] cases = valid geometries of 7 types x 4 coordinate types with empty members and nested collections, ordinates k/10^q (|k|*10^(p-q) < 2^50), XY precision -8..7, Z/M precision 0..7, every subset of {size, bbox, id list, closed rings} (8 option/precision draws per geometry); " +
			"decoded ordinates are compared with exact rational snapping, headers with an independent varint-level reader. non-trivial = geometry with >= 2 nodes, Z/M, an empty member or a non-default option; distinct by (WKB, precisions, options)",
		Assumptions: []string{
			"expected scaled integer = round-half-away(v*10^p) in exact rationals; if the exact fraction is within max(1e-9, |k|*2^-50) of 1/2 either neighbour is accepted",
			"decoded ordinate must equal float64(k)/10^p exactly for p >= 0 and within 1 ulp for p < 0 (the format divides by an inexact power of ten)",
			"tolerated losses: a geometry without any ordinate may decode as the plain empty geometry of its type; empty Points in non-empty MultiPoints must be absent or refused",
			"id lists are not generated for MultiPoints with empty members nor for wholly empty collections with a matching count (the format cannot express them)",
		},
		MinNontrivial:    500,
		RequiredMonitors: []string{"encode-closed-world", "decode-own-output", "structure", "roundtrip-snap", "size-header", "bbox-header", "idlist", "header-readers", "reject-precision", "reject-idcount"},
		Run:              runAll,
	})
}

func treeOf(g geom.Geometry) model.Tree { t, _ := model.FromGeom(g); return t }

type opts struct {
	pXY, pZ, pM            int
	size, bbox, ids, close bool
	idList                 []int64
}

func (o opts) String() string {
	return fmt.Sprintf("pXY=%d pZ=%d pM=%d size=%v bbox=%v ids=%v(%v) closeRings=%v", o.pXY, o.pZ, o.pM, o.size, o.bbox, o.ids, o.idList, o.close)
}

func (o opts) list() []geom.TWKBWriterOption {
	l := []geom.TWKBWriterOption{geom.TWKBPrecisionZ(o.pZ), geom.TWKBPrecisionM(o.pM)}
	if o.size {
		l = append(l, geom.TWKBSizeHeader())
	}
	if o.bbox {
		l = append(l, geom.TWKBBoundingBoxHeader())
	}
	if o.ids {
		l = append(l, geom.TWKBIDList(o.idList))
	}
	if o.close {
		l = append(l, geom.TWKBCloseRings())
	}
	// options are independent settings: their order must not matter (rotate by a value derived from them)
	rot := ((o.pXY+o.pZ+2*o.pM+len(o.idList))%len(l) + len(l)) % len(l)
	l = append(l[rot:], l[:rot]...)
	return l
}

var pow10 = func() [16]*big.Rat {
	var p [16]*big.Rat
	for i := range p {
		p[i] = new(big.Rat).SetFrac(new(big.Int).Exp(big.NewInt(10), big.NewInt(int64(i)), nil), big.NewInt(1))
	}
	return p
}()

// snap returns the admissible scaled integers for ordinate v at precision p.
func snap(v float64, p int) []int64 {
	r := new(big.Rat).SetFloat64(v)
	if p >= 0 {
		r.Mul(r, pow10[p])
	} else {
		r.Quo(r, pow10[-p])
	}
	// floor
	fl := new(big.Int).Div(r.Num(), r.Denom()) // Euclidean division: floor for positive denominators
	frac := new(big.Rat).Sub(r, new(big.Rat).SetInt(fl))
	half := big.NewRat(1, 2)
	k := new(big.Int).Set(fl)
	c := frac.Cmp(half)
	if c > 0 || (c == 0 && r.Sign() >= 0) {
		k.Add(k, big.NewInt(1))
	}
	out := []int64{k.Int64()}
	diff, _ := new(big.Rat).Sub(frac, half).Float64()
	margin := math.Max(1e-9, math.Abs(float64(k.Int64()))*math.Ldexp(1, -50))
	if math.Abs(diff) <= margin {
		other := new(big.Int).Set(fl)
		if k.Cmp(fl) == 0 {
			other.Add(other, big.NewInt(1))
		}
		out = append(out, other.Int64())
	}
	return out
}

func unscale(k int64, p int) float64 { return float64(k) / math.Pow10(p) }

func ulpNear(a, b float64) bool {
	if a == b {
		return true
	}
	d := math.Abs(a - b)
	u := math.Abs(math.Nextafter(b, math.Inf(1)) - b)
	return d <= u*1.0000001
}

func precFor(o opts, ct geom.CoordinatesType, d int) int {
	switch {
	case d < 2:
		return o.pXY
	case d == 2 && ct.Is3D():
		return o.pZ
	default:
		return o.pM
	}
}

// expectTree: the original with the tolerated structural losses applied.
func expectTree(t model.Tree) model.Tree {
	if !t.HasOrdinate() {
		return model.Tree{Type: t.Type, CT: geom.DimXY}
	}
	var rec func(n model.Tree) model.Tree
	rec = func(n model.Tree) model.Tree {
		out := model.Tree{Type: n.Type, CT: n.CT, Coords: n.Coords}
		for _, k := range n.Kids {
			if n.Type == geom.TypeMultiPoint && len(k.Coords) == 0 {
				continue
			}
			out.Kids = append(out.Kids, rec(k))
		}
		return out
	}
	return rec(t)
}

// compare walks expected and decoded trees; ordinates are compared through snapping.
func compare(k *run.K, want, got model.Tree, o opts, path string) (structural string, ordinate string) {
	if want.Type != got.Type {
		return fmt.Sprintf("%s: type %v vs %v", path, want.Type, got.Type), ""
	}
	if !want.HasOrdinate() {
		// a sub-geometry without any ordinate may come back as the plain empty geometry
		if got.HasOrdinate() {
			return fmt.Sprintf("%s: ordinates invented in an empty member: %s", path, got), ""
		}
		if want.CT != got.CT && path != want.Type.String() {
			// empty member inside a non-empty parent: coordinate type must be kept
			return fmt.Sprintf("%s: coordinate type of empty member %v vs %v", path, want.CT, got.CT), ""
		}
		return "", ""
	}
	if want.CT != got.CT {
		return fmt.Sprintf("%s: coordinate type %v vs %v", path, want.CT, got.CT), ""
	}
	if len(want.Coords) != len(got.Coords) {
		return fmt.Sprintf("%s: %d vs %d ordinates", path, len(want.Coords), len(got.Coords)), ""
	}
	d := want.CT.Dimension()
	for i, v := range want.Coords {
		p := precFor(o, want.CT, i%d)
		ok := false
		for _, kk := range snap(v, p) {
			e := unscale(kk, p)
			if p >= 0 && math.Float64bits(e) == math.Float64bits(got.Coords[i]) || (p >= 0 && e == 0 && got.Coords[i] == 0) {
				ok = true
			}
			if p < 0 && ulpNear(got.Coords[i], float64(kk)*math.Pow10(-p)) {
				ok = true
			}
		}
		if !ok && ordinate == "" {
			ordinate = fmt.Sprintf("%s ordinate %d: original %v at precision %d decoded as %v (admissible scaled integers %v)", path, i, v, p, got.Coords[i], snap(v, p))
		}
	}
	if len(want.Kids) != len(got.Kids) {
		return fmt.Sprintf("%s: %d vs %d members", path, len(want.Kids), len(got.Kids)), ordinate
	}
	for i := range want.Kids {
		s, od := compare(k, want.Kids[i], got.Kids[i], o, fmt.Sprintf("%s[%d]", path, i))
		if od != "" && ordinate == "" {
			ordinate = od
		}
		if s != "" {
			return s, ordinate
		}
	}
	return "", ordinate
}

func numMembers(t model.Tree) (int, bool) {
	switch t.Type {
	case geom.TypeMultiPoint, geom.TypeMultiLineString, geom.TypeMultiPolygon, geom.TypeGeometryCollection:
		return len(t.Kids), true
	}
	return 0, false
}

func hasEmptyPointInNonEmptyMP(t model.Tree) bool {
	if t.Type == geom.TypeMultiPoint && t.HasOrdinate() {
		for _, k := range t.Kids {
			if len(k.Coords) == 0 {
				return true
			}
		}
	}
	for _, k := range t.Kids {
		if hasEmptyPointInNonEmptyMP(k) {
			return true
		}
	}
	return false
}

// ringCollapse: a ring whose snapped second-to-last point equals its snapped
// first point cannot be re-closed unambiguously by the format's reader.
func ringCollapse(t model.Tree, o opts) bool {
	if t.Type == geom.TypePolygon {
		d := t.CT.Dimension()
		for _, r := range t.Kids {
			n := len(r.Coords) / d
			if n < 3 {
				return true
			}
			same := true
			for j := 0; j < d; j++ {
				p := precFor(o, t.CT, j)
				// the two ordinates may snap to the same integer (any admissible candidate)
				common := false
				for _, a := range snap(r.Coords[j], p) {
					for _, b := range snap(r.Coords[(n-2)*d+j], p) {
						if a == b {
							common = true
						}
					}
				}
				if !common {
					same = false
				}
			}
			if same {
				return true
			}
		}
	}
	for _, k := range t.Kids {
		if ringCollapse(k, o) {
			return true
		}
	}
	return false
}

func one(k *run.K, t model.Tree, o opts) {
	g := model.ToGeom(t)
	k.In("tree", t.String())
	k.In("options", o.String())
	// closed world of errors
	precBad := o.pXY < -8 || o.pXY > 7 || (t.CT.Is3D() && (o.pZ < 0 || o.pZ > 7)) || (t.CT.IsMeasured() && (o.pM < 0 || o.pM > 7))
	nm, isColl := numMembers(t)
	idBad := o.ids && len(o.idList) > 0 && (!isColl || len(o.idList) != nm)
	var b []byte
	var err error
	if k.Lib("nopanic", func() { b, err = geom.MarshalTWKB(g, o.pXY, o.list()...) }) {
		return
	}
	if precBad {
		k.Check("reject-precision", err != nil, "MarshalTWKB accepted out-of-range precision (%s)", o)
		return
	}
	if idBad {
		class := "idlist-on-non-collection"
		if isColl {
			class = "idlist-count-mismatch"
			if !t.HasOrdinate() {
				class = "idlist-on-empty-collection"
			}
		}
		if err == nil {
			// accepted: then at least it must not be undecodable / silently dropped
			k.CheckClass("reject-idcount", class, false, "MarshalTWKB accepted an ID list of length %d for a %v with %d members (%s)", len(o.idList), t.Type, nm, o)
		} else {
			k.Check("reject-idcount", true, "")
		}
		return
	}
	refusable := hasEmptyPointInNonEmptyMP(t)
	if err != nil {
		k.CheckClass("encode-closed-world", "", refusable, "MarshalTWKB failed for an admissible input: %v (%s)", err, o)
		return
	}
	k.Check("encode-closed-world", true, "")
	k.In("twkb", b)
	{
		keep := append([]byte(nil), b...)
		k.Lib("nopanic", func() {
			_, _ = geom.MarshalTWKB(g, o.pXY, o.list()...)
			_, _ = geom.MarshalTWKB(geom.NewLineStringXY(1, 2, 3, 4).AsGeometry(), 1, geom.TWKBSizeHeader(), geom.TWKBBoundingBoxHeader())
			_, _ = geom.MarshalTWKB(geom.NewPointXY(5, 6).AsGeometry(), 0)
		})
		k.Check("encode-closed-world", bytes.Equal(b, keep), "bytes returned by MarshalTWKB changed after later MarshalTWKB calls")
	}
	// decode own output
	var back geom.Geometry
	var derr error
	snapIn := append([]byte(nil), b...)
	if k.Lib("nopanic", func() { back, derr = geom.UnmarshalTWKB(b, geom.NoValidate{}) }) {
		return
	}
	k.Check("decode-own-output", bytes.Equal(snapIn, b), "UnmarshalTWKB modified its input buffer")
	cls := ""
	if (o.size || o.bbox) && hasEmptyMember(t) {
		cls = "size-or-bbox-with-empty-member"
	}
	if !k.CheckClass("decode-own-output", cls, derr == nil, "UnmarshalTWKB rejects the encoder's own output: %v (%s) bytes %x", derr, o, b) {
		return
	}
	if ringCollapse(t, o) {
		k.Skip("structure")
		k.Count("ring_collapse_skipped", 1)
	} else {
		want := expectTree(t)
		got := treeOf(back)
		s, od := compare(k, want, got, o, want.Type.String())
		sc := ""
		if s != "" {
			switch {
			case hasEmptyPointInNonEmptyMP(t):
				sc = "empty-point-in-multipoint"
			case hasEmptyMember(t):
				sc = "empty-member-coordinate-type"
			}
		}
		k.CheckClass("structure", sc, s == "", "decoded structure differs: %s (%s)\n decoded %s", s, o, got)
		if s == "" {
			k.Check("roundtrip-snap", od == "", "%s (%s)", od, o)
		}
	}
	// independent reader
	tw, rerr := codec.ReadTWKB(b)
	if !k.Check("decode-own-output", rerr == nil && tw.End == len(b), "independent TWKB reader: err=%v consumed %d of %d bytes %x", rerr, tw.End, len(b), b) {
		return
	}
	// size header at every level
	var sizeOK func(n codec.TW, top bool) string
	sizeOK = func(n codec.TW, top bool) string {
		if n.HasSize && int(n.SizeVal) != n.End-n.AfterSize {
			return fmt.Sprintf("size field %d but %d bytes follow it", n.SizeVal, n.End-n.AfterSize)
		}
		if top && o.size && !n.Empty && !n.HasSize {
			return "size requested but the header does not announce it"
		}
		if n.Type == 7 {
			for _, c := range n.Kids {
				if s := sizeOK(c, false); s != "" {
					return s
				}
			}
		}
		return ""
	}
	if o.size {
		k.Check("size-header", sizeOK(tw, true) == "", "%s (%s) bytes %x", sizeOK(tw, true), o, b)
	}
	// bbox header
	if o.bbox && !tw.Empty {
		ok := tw.HasBBox && len(tw.BBox) == 2*tw.Dims
		msg := "bbox requested but absent"
		if ok {
			pts := allPointsDims(tw, tw.Dims)
			if len(pts) == 0 {
				ok, msg = false, "no points"
			}
			for d := 0; ok && d < tw.Dims; d++ {
				mn, mx := pts[0][d], pts[0][d]
				for _, p := range pts {
					if p[d] < mn {
						mn = p[d]
					}
					if p[d] > mx {
						mx = p[d]
					}
				}
				if tw.BBox[2*d] != mn || tw.BBox[2*d+1] != mx-mn {
					ok, msg = false, fmt.Sprintf("dimension %d: header (min %d, delta %d) but the geometry has min %d max %d", d, tw.BBox[2*d], tw.BBox[2*d+1], mn, mx)
				}
			}
		}
		bc := ""
		if t.Type == geom.TypeGeometryCollection {
			bc = "collection-bbox"
		}
		k.CheckClass("bbox-header", bc, ok, "%s (%s) bytes %x", msg, o, b)
	}
	// id list
	ids, has, ierr := geom.UnmarshalTWKBIDList(b)
	if o.ids && len(o.idList) > 0 {
		// A non-empty MultiPoint that drops its empty Points can only keep the IDs of the members that
		// survive (the format has one ID per written point); everywhere else the list comes back verbatim.
		want := o.idList
		if t.Type == geom.TypeMultiPoint && hasEmptyPointInNonEmptyMP(t) {
			want = nil
			for i, kid := range t.Kids {
				if len(kid.Coords) > 0 {
					want = append(want, o.idList[i])
				}
			}
			k.Count("idlist_with_dropped_empty_points", 1)
		}
		eq := ierr == nil && has && len(ids) == len(want) && len(tw.IDs) == len(want)
		for i := 0; eq && i < len(ids); i++ {
			eq = ids[i] == want[i] && tw.IDs[i] == want[i]
		}
		k.Check("idlist", eq, "ID list %v (expected back: %v) came back as %v (present=%v err=%v; independent reader %v)", o.idList, want, ids, has, ierr, tw.IDs)
	} else {
		k.Check("idlist", ierr == nil && !has && len(ids) == 0, "no ID list written but reader says present=%v %v err=%v", has, ids, ierr)
	}
	// header-only readers agree with the full decode
	sz, hasSz, serr := geom.UnmarshalTWKBSize(b)
	if o.size && !tw.Empty {
		k.Check("header-readers", serr == nil && hasSz && sz == len(b), "UnmarshalTWKBSize = %d,%v,%v; the TWKB is %d bytes", sz, hasSz, serr, len(b))
	} else {
		k.Check("header-readers", serr == nil && !hasSz, "UnmarshalTWKBSize present=%v err=%v without a size header", hasSz, serr)
	}
	env, hasEnv, eerr := geom.UnmarshalTWKBEnvelope(b)
	if o.bbox && !tw.Empty {
		ok := eerr == nil && hasEnv
		if ok {
			we := back.Envelope()
			a0, a1, okA := env.XYEnvelope.MinMaxXYs()
			b0, b1, okB := we.MinMaxXYs()
			ok = okA == okB && a0 == b0 && a1 == b1
			if ok && t.CT.Is3D() {
				ok = rangeEq(env.ZRange, back, 2)
			}
			if ok && t.CT.IsMeasured() {
				ok = rangeEq(env.MRange, back, t.CT.Dimension()-1)
			}
		}
		bc := ""
		if t.Type == geom.TypeGeometryCollection {
			bc = "collection-bbox"
		}
		k.CheckClass("header-readers", bc, ok, "UnmarshalTWKBEnvelope = %v (present=%v err=%v), decoded geometry envelope %v", env, hasEnv, eerr, back.Envelope())
	} else {
		k.Check("header-readers", eerr == nil && !hasEnv, "UnmarshalTWKBEnvelope present=%v err=%v without a bbox header", hasEnv, eerr)
	}
}

func rangeEq(iv geom.Interval, g geom.Geometry, idx int) bool {
	t := treeOf(g)
	lo, hi := math.Inf(1), math.Inf(-1)
	var rec func(n model.Tree)
	rec = func(n model.Tree) {
		d := n.CT.Dimension()
		for i := idx; i < len(n.Coords); i += d {
			lo, hi = math.Min(lo, n.Coords[i]), math.Max(hi, n.Coords[i])
		}
		for _, c := range n.Kids {
			rec(c)
		}
	}
	rec(t)
	a, b, ok := iv.MinMax()
	return ok && a == lo && b == hi
}

func allPointsDims(t codec.TW, dims int) [][]int64 {
	var out [][]int64
	if t.Dims == dims {
		for _, p := range t.Parts {
			out = append(out, p...)
		}
	}
	for _, c := range t.Kids {
		if c.Dims == 0 {
			c.Dims = t.Dims
		}
		out = append(out, allPointsDims(c, dims)...)
	}
	return out
}

func hasEmptyMember(t model.Tree) bool {
	for _, k := range t.Kids {
		if k.Type == geom.TypeLineString && t.Type == geom.TypePolygon {
			continue
		}
		if !k.HasOrdinate() || hasEmptyMember(k) {
			return true
		}
	}
	return false
}

func mkTree(r *run.Rng) (model.Tree, int, bool) {
	g := &gen.G{R: r, Cfg: gen.NewCfg(r, gen.DSmall)}
	x := g.Rich(2)
	t, _ := model.FromGeom(x)
	// scale: XY = k/10^q with an integer multiplier
	q := r.Range(0, 7)
	mult := []float64{1, 1, 3, 7, 1001, 1000003}[r.Intn(6)]
	div := math.Pow10(q)
	i := 0
	t = t.Map(func(c []float64, ct geom.CoordinatesType) {
		c[0] = c[0] * mult / div
		c[1] = c[1] * mult / div
		j := 2
		if ct.Is3D() {
			c[j] = float64(r.Range(-100000, 100000)) / math.Pow10(r.Range(0, 4))
			j++
		}
		if ct.IsMeasured() {
			c[j] = float64(i*13-500) / math.Pow10(r.Range(0, 3))
		}
		i++
	})
	// keep rings closed in every dimension
	t = model.SetZM(r, t, t.CT, model.ValueOpts{Simple: true}, false)
	ok := exact.ValidGeom(model.ToGeom(t)).OK && model.Equal(treeOf(model.ToGeom(t)), t)
	return t, q, ok
}

func drawOpts(r *run.Rng, t model.Tree, q int, variant int) opts {
	o := opts{pXY: r.Range(-8, 7), pZ: r.Range(0, 7), pM: r.Range(0, 7)}
	if r.Chance(1, 3) {
		o.pXY = q // exactly on the grid
	} else if r.Chance(1, 3) {
		o.pXY = r.Range(q, 7)
	}
	// the quantifier's bound: |k| * 10^(p-q) < 2^50
	maxXY, maxZ, maxM := 0.0, 0.0, 0.0
	t.Map(func(c []float64, ct geom.CoordinatesType) {
		maxXY = math.Max(maxXY, math.Max(math.Abs(c[0]), math.Abs(c[1])))
		j := 2
		if ct.Is3D() {
			maxZ = math.Max(maxZ, math.Abs(c[j]))
			j++
		}
		if ct.IsMeasured() {
			maxM = math.Max(maxM, math.Abs(c[j]))
		}
	})
	for o.pXY > -8 && maxXY*math.Pow10(o.pXY) >= math.Ldexp(1, 50) {
		o.pXY--
	}
	for o.pZ > 0 && maxZ*math.Pow10(o.pZ) >= math.Ldexp(1, 50) {
		o.pZ--
	}
	for o.pM > 0 && maxM*math.Pow10(o.pM) >= math.Ldexp(1, 50) {
		o.pM--
	}
	o.size, o.bbox, o.close = variant&1 != 0, variant&2 != 0, variant&8 != 0
	if variant&4 != 0 {
		nm, isColl := numMembers(t)
		if isColl && t.HasOrdinate() && nm > 0 {
			o.ids = true
			distinct := t.Type == geom.TypeMultiPoint && hasEmptyPointInNonEmptyMP(t)
			for i := 0; i < nm; i++ {
				id := []int64{0, 1, -1, 127, 128, -129, 1 << 40, -(1 << 62), math.MaxInt64, math.MinInt64}[r.Intn(10)]
				if distinct { // dropped members must be identifiable from what comes back
					id = int64(i+1)*1000 + int64(r.Intn(1000))
				}
				o.idList = append(o.idList, id)
			}
		}
	}
	return o
}

func runAll(c *run.Ctx) {
	n := c.N(12000, 100000)
	draws := c.N(8, 16)
	for i := 0; i < n; i++ {
		c.Case("geom", i, func(k *run.K) {
			t, q, ok := mkTree(k.Rng)
			if !ok {
				k.Skip("structure")
				k.Count("invalid_candidates_skipped", 1)
				return
			}
			k.Nontrivial(string(codec.EncodeWKB(t)) + fmt.Sprint(k.Index))
			for d := 0; d < draws; d++ {
				variant := (d + k.Index) % 16
				o := drawOpts(k.Rng, t, q, variant)
				one(k, t, o)
				k.Count("encodings", 1)
			}
		})
	}
	// geometries without any ordinate: typed empties, Multi* of 1..3 empty members, collections of (nested)
	// empties, alone and as a member next to a non-empty Point - each with every subset of the options
	eidx := 0
	for _, ct := range model.CTypes {
		ct := ct
		e := func(t geom.GeometryType, kids ...model.Tree) model.Tree { return model.Tree{Type: t, CT: ct, Kids: kids} }
		var shapes []model.Tree
		for _, ty := range model.Types {
			shapes = append(shapes, e(ty))
		}
		for n := 1; n <= 3; n++ {
			var mp, ml, mg, gc []model.Tree
			for i := 0; i < n; i++ {
				mp, ml, mg = append(mp, e(geom.TypePoint)), append(ml, e(geom.TypeLineString)), append(mg, e(geom.TypePolygon))
				gc = append(gc, e(model.Types[(i*3+n)%7]))
			}
			shapes = append(shapes, e(geom.TypeMultiPoint, mp...), e(geom.TypeMultiLineString, ml...), e(geom.TypeMultiPolygon, mg...), e(geom.TypeGeometryCollection, gc...),
				e(geom.TypeGeometryCollection, e(geom.TypeMultiPolygon, mg...), e(geom.TypeGeometryCollection, gc...)))
		}
		for _, sh := range shapes {
			withPoint := e(geom.TypeGeometryCollection, sh, model.Tree{Type: geom.TypePoint, CT: ct, Coords: []float64{1, 2, 3, 4}[:ct.Dimension()]}, sh)
			for _, t := range []model.Tree{sh, withPoint} {
				t := t
				eidx++
				c.Case("no-ordinate", eidx, func(k *run.K) {
					k.Nontrivial("no-ordinate" + t.String())
					for v := 0; v < 16; v++ {
						one(k, t, drawOpts(k.Rng, t, 0, v))
						k.Count("encodings", 1)
						k.Count("encodings_without_ordinates", 1)
					}
				})
			}
		}
	}
	// curves of every length 2..140 (and around 256, 512, 1024) followed by further curves
	sidx := 0
	sizes := []int{254, 255, 256, 257, 258, 511, 512, 513, 1023, 1024, 1025}
	for sn := 2; sn <= 140; sn++ {
		sizes = append(sizes, sn)
	}
	for _, sn := range sizes {
		for _, ct := range model.CTypes {
			for _, kind := range []int{0, 2} {
				sidx++
				sn, ct, kind := sn, ct, kind
				c.Case("sized", sidx, func(k *run.K) {
					t := model.SizedTree(kind, sn, ct)
					k.Nontrivial(fmt.Sprint("sized", kind, sn, ct))
					for v := 0; v < 4; v++ {
						one(k, t, drawOpts(k.Rng, t, 0, (v*5+sidx)%16))
						k.Count("encodings", 1)
					}
				})
			}
		}
	}
	cidx := 0
	for _, cn := range []int{255, 256, 257, 1023, 1024, 1025} {
		for _, kind := range []int{4, 5} {
			cidx++
			cn, kind, cidx := cn, kind, cidx
			ct := model.CTypes[cidx%4]
			c.Case("counts", cidx, func(k *run.K) {
				t := model.SizedTree(kind, cn, ct)
				k.Nontrivial(fmt.Sprint("counts", kind, cn, ct))
				for v := 0; v < 3; v++ {
					one(k, t, drawOpts(k.Rng, t, 0, (v*7+cidx)%16))
					k.Count("encodings", 1)
				}
			})
		}
	}
	// rejection families
	for i := 0; i < c.N(1500, 20000); i++ {
		c.Case("reject", i, func(k *run.K) {
			t, q, ok := mkTree(k.Rng)
			if !ok {
				k.Skip("reject-precision")
				return
			}
			k.Nontrivial(string(codec.EncodeWKB(t)) + "r" + fmt.Sprint(k.Index))
			o := drawOpts(k.Rng, t, q, 0)
			switch k.Rng.Intn(3) {
			case 0: // precision out of range
				switch k.Rng.Intn(3) {
				case 0:
					o.pXY = []int{-9, 8, -100, 100}[k.Rng.Intn(4)]
				case 1:
					if t.CT.Is3D() {
						o.pZ = []int{-1, 8, 99}[k.Rng.Intn(3)]
					} else {
						o.pXY = 8
					}
				default:
					if t.CT.IsMeasured() {
						o.pM = []int{-1, 8, 99}[k.Rng.Intn(3)]
					} else {
						o.pXY = -9
					}
				}
			default: // id count mismatch (incl. id list on non-collections and on empty collections)
				nm, _ := numMembers(t)
				o.ids = true
				l := nm + []int{1, 2, -1}[k.Rng.Intn(3)]
				if l <= 0 {
					l = nm + 1
				}
				for j := 0; j < l; j++ {
					o.idList = append(o.idList, int64(j+1))
				}
			}
			one(k, t, o)
		})
	}
}
