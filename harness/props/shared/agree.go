package shared

import (
	"encoding/hex"
	"fmt"
	"math"
	"reflect"
	"strings"

	"github.com/peterstace/simplefeatures/geom"

	"verif/run"
)

// Concrete returns g's payload as a value of its concrete Go type (Point, LineString, ...).
func Concrete(g geom.Geometry) reflect.Value {
	switch g.Type() {
	case geom.TypePoint:
		return reflect.ValueOf(g.MustAsPoint())
	case geom.TypeLineString:
		return reflect.ValueOf(g.MustAsLineString())
	case geom.TypePolygon:
		return reflect.ValueOf(g.MustAsPolygon())
	case geom.TypeMultiPoint:
		return reflect.ValueOf(g.MustAsMultiPoint())
	case geom.TypeMultiLineString:
		return reflect.ValueOf(g.MustAsMultiLineString())
	case geom.TypeMultiPolygon:
		return reflect.ValueOf(g.MustAsMultiPolygon())
	}
	return reflect.ValueOf(g.MustAsGeometryCollection())
}

// Digest renders a method result for comparison: geometries by type + WKB (so a Polygon and the Geometry
// wrapping the same Polygon are equal), floats by bits, errors by nil-ness.
func Digest(x any) (s string) {
	defer func() {
		if r := recover(); r != nil {
			s = fmt.Sprintf("<digest panic %v>", r)
		}
	}()
	switch t := x.(type) {
	case nil:
		return "nil"
	case geom.Geometry:
		return t.Type().String() + ":" + hex.EncodeToString(t.AsBinary())
	case interface{ AsGeometry() geom.Geometry }:
		g := t.AsGeometry()
		return g.Type().String() + ":" + hex.EncodeToString(g.AsBinary())
	case geom.Envelope:
		return t.String()
	case geom.Sequence:
		var sb strings.Builder
		fmt.Fprintf(&sb, "Seq/%v[", t.CoordinatesType())
		for i := 0; i < t.Length(); i++ {
			c := t.Get(i)
			fmt.Fprintf(&sb, "%x %x %x %x;", math.Float64bits(c.X), math.Float64bits(c.Y), math.Float64bits(c.Z), math.Float64bits(c.M))
		}
		return sb.String() + "]"
	case error:
		return "error"
	case float64:
		return fmt.Sprintf("%x", math.Float64bits(t))
	case []byte:
		return hex.EncodeToString(t)
	}
	rv := reflect.ValueOf(x)
	if rv.Kind() == reflect.Slice {
		var ps []string
		for i := 0; i < rv.Len(); i++ {
			ps = append(ps, Digest(rv.Index(i).Interface()))
		}
		return "[" + strings.Join(ps, ",") + "]"
	}
	return fmt.Sprintf("%v", x)
}

// Call is one method invocation for ConcreteAgree: a name and the (non-variadic) arguments.
type Call struct {
	Method string
	Args   []any
}

// ConcreteAgree invokes each call on g (type Geometry) and on g's payload as a value of its concrete type
// (Polygon, MultiPoint, ...), which has its own exported method of the same name, and requires equal
// results. The Geometry-level result is what the property's other monitors judge; this extends their
// verdict to the second entry point. Results are compared by Digest; when the Geometry method has extra
// results (a "defined" flag or an error) they must say "defined"/nil, otherwise the call is not compared.
// normalise, when non-nil, maps both results of a method to a comparable form (for documented
// representation differences between the two entry points).
func ConcreteAgree(k *run.K, g geom.Geometry, monitor string, calls []Call, normalise func(method string, v any) any) {
	gv := reflect.ValueOf(g)
	cv := Concrete(g)
	for _, c := range calls {
		gm, cm := gv.MethodByName(c.Method), cv.MethodByName(c.Method)
		if !gm.IsValid() || !cm.IsValid() {
			continue // this concrete type has no such method
		}
		args := make([]reflect.Value, len(c.Args))
		for i, a := range c.Args {
			args[i] = reflect.ValueOf(a)
		}
		fits := func(m reflect.Value) bool {
			t := m.Type()
			n := t.NumIn()
			if t.IsVariadic() {
				n--
			}
			if n != len(args) {
				return false
			}
			for i := 0; i < n; i++ {
				if !args[i].Type().AssignableTo(t.In(i)) {
					return false
				}
			}
			return true
		}
		if !fits(gm) || !fits(cm) {
			k.Count("concrete_signature_mismatch", 1)
			continue
		}
		var go_, co []reflect.Value
		if k.Lib(monitor, func() { go_ = gm.Call(args) }) {
			continue
		}
		if k.Lib(monitor, func() { co = cm.Call(args) }) {
			continue
		}
		n := len(co)
		if len(go_) < n {
			n = len(go_)
		}
		// extra results: flags must be true, errors nil
		comparable := true
		for _, extra := range [][]reflect.Value{go_[n:], co[n:]} {
			for _, v := range extra {
				switch x := v.Interface().(type) {
				case bool:
					comparable = comparable && x
				case error:
					comparable = comparable && x == nil
				case nil:
				}
			}
		}
		if !comparable {
			k.Count("concrete_not_comparable", 1)
			continue
		}
		ok := true
		var dg, dc string
		for i := 0; i < n && ok; i++ {
			a, b := go_[i].Interface(), co[i].Interface()
			if normalise != nil {
				a, b = normalise(c.Method, a), normalise(c.Method, b)
			}
			dg, dc = Digest(a), Digest(b)
			ok = dg == dc
		}
		k.Distinct("concrete_methods", cv.Type().Name()+"."+c.Method)
		k.Check(monitor, ok, "%s.%s%v disagrees with Geometry.%s on the same value: %s vs %s (receiver %s)", cv.Type().Name(), c.Method, c.Args, c.Method, clipS(dc), clipS(dg), WKT(g)())
	}
}

func clipS(s string) string {
	if len(s) > 160 {
		return s[:160] + "…"
	}
	return s
}

// NormBoundary: Geometry.Boundary documents that the boundary of a polygon without holes is returned as a
// LineString, while Polygon.Boundary returns a one-member MultiLineString; both are the same set.
func NormBoundary(method string, v any) any {
	if method != "Boundary" {
		return v
	}
	var g geom.Geometry
	switch t := v.(type) {
	case geom.Geometry:
		g = t
	case interface{ AsGeometry() geom.Geometry }:
		g = t.AsGeometry()
	default:
		return v
	}
	if g.IsMultiLineString() && g.MustAsMultiLineString().NumLineStrings() == 1 {
		return g.MustAsMultiLineString().LineStringN(0).AsGeometry()
	}
	return g
}

// HiddenPayload reports a Point (at any depth) whose Coordinates value carries a non-zero Z or M although
// its coordinate type has no such dimension (the Coordinates documentation promises zero there); "" if none.
func HiddenPayload(g geom.Geometry) string {
	check := func(p geom.Point) string {
		c, ok := p.Coordinates()
		if !ok {
			return ""
		}
		if !c.Type.Is3D() && c.Z != 0 {
			return fmt.Sprintf("Point %v has coordinate type %v but Z=%v", c.XY, c.Type, c.Z)
		}
		if !c.Type.IsMeasured() && c.M != 0 {
			return fmt.Sprintf("Point %v has coordinate type %v but M=%v", c.XY, c.Type, c.M)
		}
		return ""
	}
	switch {
	case g.IsPoint():
		return check(g.MustAsPoint())
	case g.IsMultiPoint():
		mp := g.MustAsMultiPoint()
		for i := 0; i < mp.NumPoints(); i++ {
			if s := check(mp.PointN(i)); s != "" {
				return s
			}
		}
	case g.IsGeometryCollection():
		gc := g.MustAsGeometryCollection()
		for i := 0; i < gc.NumGeometries(); i++ {
			if s := HiddenPayload(gc.GeometryN(i)); s != "" {
				return s
			}
		}
	}
	return ""
}
