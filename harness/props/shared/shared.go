// Package shared holds helpers used by several property packages.
package shared

import (
	"fmt"
	"math"

	"github.com/peterstace/simplefeatures/geom"

	"verif/exact"
	"verif/gen"
	"verif/run"
)

// PickDomain draws a workload domain with the bulk on D-small.
func PickDomain(r *run.Rng) string {
	switch r.Intn(10) {
	case 0, 1:
		return gen.DLarge
	case 2, 3:
		return gen.DGP
	}
	return gen.DSmall
}

// ClearanceBound is the near-degenerate exclusion bound of DESIGN §2.4.
func ClearanceBound(domain string, m float64) float64 {
	if domain == gen.DGP {
		return 1e-6 * m
	}
	return 1e-9 * m
}

// DisjointCollection builds a GeometryCollection whose members the oracle
// certifies pairwise disjoint (optionally with empty members inserted).
func DisjointCollection(g *gen.G, withEmpties bool) geom.Geometry {
	var ms []geom.Geometry
	var shapes []*exact.Shape
	n := g.R.Range(1, 3)
	for tries := 0; tries < 40 && len(ms) < n; tries++ {
		t := gen.AllTypes[g.R.Intn(6)]
		c := g.Typed(t, 0)
		s := exact.FromGeom(c)
		ok := true
		for _, o := range shapes {
			if exact.Intersects(s, o) {
				ok = false
				break
			}
		}
		if ok {
			ms = append(ms, c)
			shapes = append(shapes, s)
		}
	}
	if withEmpties && g.R.Chance(1, 3) {
		e := gen.EmptyOf(gen.AllTypes[g.R.Intn(7)], geom.DimXY)
		k := g.R.Intn(len(ms) + 1)
		ms = append(ms[:k], append([]geom.Geometry{e}, ms[k:]...)...)
	}
	if g.R.Chance(1, 5) && len(ms) > 0 { // nest
		inner := geom.NewGeometryCollection(ms[:1]).AsGeometry()
		ms = append([]geom.Geometry{inner}, ms[1:]...)
	}
	return geom.NewGeometryCollection(ms).AsGeometry()
}

// WKT renders a geometry for inputs/samples without risking a panic.
func WKT(g geom.Geometry) func() string {
	return func() (s string) {
		defer func() {
			if r := recover(); r != nil {
				s = fmt.Sprintf("<AsText panic: %v>", r)
			}
		}()
		return g.AsText()
	}
}

// TypeName is a compact type label (with E suffix for empties).
func TypeName(g geom.Geometry) string {
	n := map[geom.GeometryType]string{geom.TypePoint: "Pt", geom.TypeMultiPoint: "MPt", geom.TypeLineString: "LS",
		geom.TypeMultiLineString: "MLS", geom.TypePolygon: "Pg", geom.TypeMultiPolygon: "MPg", geom.TypeGeometryCollection: "GC"}[g.Type()]
	if g.IsEmpty() {
		n += "∅"
	}
	return n
}

// MaxAbs2 is the joint magnitude of two shapes.
func MaxAbs2(a, b *exact.Shape) float64 { return math.Max(a.MaxAbs(), b.MaxAbs()) }

// AllInts reports whether every ordinate of g is an integer.
func AllInts(g geom.Geometry) bool {
	s := g.DumpCoordinates()
	for i := 0; i < s.Length(); i++ {
		xy := s.GetXY(i)
		if xy.X != math.Trunc(xy.X) || xy.Y != math.Trunc(xy.Y) {
			return false
		}
	}
	return true
}
