// Package shared holds helpers used by several property packages.
package shared

import (
	"fmt"
	"math"

	"github.com/peterstace/simplefeatures/geom"

	"verif/exact"
	"verif/gen"
	"verif/model"
	"verif/run"
)

// PickDomain draws a workload domain with the bulk on D-small.
func PickDomain(r *run.Rng) string {
	switch r.Intn(10) {
	case 0, 1:
		return gen.DLarge
	case 2, 3:
		return gen.DGP
	}
	return gen.DSmall
}

// ClearanceBound is the near-degenerate exclusion bound of DESIGN §2.4.
func ClearanceBound(domain string, m float64) float64 {
	if domain == gen.DGP {
		return 1e-6 * m
	}
	return 1e-9 * m
}

// DisjointCollection builds a GeometryCollection whose members the oracle
// certifies pairwise disjoint (optionally with empty members inserted).
func DisjointCollection(g *gen.G, withEmpties bool) geom.Geometry {
	var ms []geom.Geometry
	var shapes []*exact.Shape
	n := g.R.Range(1, 3)
	for tries := 0; tries < 40 && len(ms) < n; tries++ {
		t := gen.AllTypes[g.R.Intn(6)]
		c := g.Typed(t, 0)
		s := exact.FromGeom(c)
		ok := true
		for _, o := range shapes {
			if exact.Intersects(s, o) {
				ok = false
				break
			}
		}
		if ok {
			ms = append(ms, c)
			shapes = append(shapes, s)
		}
	}
	if withEmpties && g.R.Chance(1, 2) {
		for ne := g.R.Range(1, 2); ne > 0; ne-- {
			e := gen.EmptyOf(gen.AllTypes[g.R.Intn(7)], geom.DimXY)
			k := g.R.Intn(len(ms) + 1)
			ms = append(ms[:k], append([]geom.Geometry{e}, ms[k:]...)...)
		}
	}
	// nest: wrap random contiguous runs of members (empties included) into sub-collections, up to depth 3, so
	// that an empty member can sit next to a non-empty one at any level
	if g.R.Chance(2, 5) && len(ms) > 0 {
		for rounds := g.R.Range(1, 3); rounds > 0; rounds-- {
			i := g.R.Intn(len(ms))
			j := i + 1 + g.R.Intn(len(ms)-i)
			inner := geom.NewGeometryCollection(append([]geom.Geometry(nil), ms[i:j]...)).AsGeometry()
			ms = append(ms[:i], append([]geom.Geometry{inner}, ms[j:]...)...)
		}
	}
	return geom.NewGeometryCollection(ms).AsGeometry()
}

// WKT renders a geometry for inputs/samples without risking a panic.
func WKT(g geom.Geometry) func() string {
	return func() (s string) {
		defer func() {
			if r := recover(); r != nil {
				s = fmt.Sprintf("<AsText panic: %v>", r)
			}
		}()
		return g.AsText()
	}
}

// TypeName is a compact type label (with E suffix for empties).
func TypeName(g geom.Geometry) string {
	n := map[geom.GeometryType]string{geom.TypePoint: "Pt", geom.TypeMultiPoint: "MPt", geom.TypeLineString: "LS",
		geom.TypeMultiLineString: "MLS", geom.TypePolygon: "Pg", geom.TypeMultiPolygon: "MPg", geom.TypeGeometryCollection: "GC"}[g.Type()]
	if g.IsEmpty() {
		n += "∅"
	}
	return n
}

// MaxAbs2 is the joint magnitude of two shapes.
func MaxAbs2(a, b *exact.Shape) float64 { return math.Max(a.MaxAbs(), b.MaxAbs()) }

// AllInts reports whether every ordinate of g is an integer.
func AllInts(g geom.Geometry) bool {
	s := g.DumpCoordinates()
	for i := 0; i < s.Length(); i++ {
		xy := s.GetXY(i)
		if xy.X != math.Trunc(xy.X) || xy.Y != math.Trunc(xy.Y) {
			return false
		}
	}
	return true
}

// Rebuild reconstructs g applying lineFn to every LineString sequence and
// ringFn to every polygon ring sequence (nil = identity). Structure, member
// order, emptiness and coordinate type are preserved.
func Rebuild(g geom.Geometry, lineFn, ringFn func(geom.Sequence) geom.Sequence) geom.Geometry {
	id := func(s geom.Sequence) geom.Sequence { return s }
	if lineFn == nil {
		lineFn = id
	}
	if ringFn == nil {
		ringFn = id
	}
	ct := g.CoordinatesType()
	poly := func(p geom.Polygon) geom.Polygon {
		if p.IsEmpty() {
			return p
		}
		rs := p.DumpRings()
		out := make([]geom.LineString, len(rs))
		for i, r := range rs {
			out[i] = geom.NewLineString(ringFn(r.Coordinates()))
		}
		return geom.NewPolygon(out)
	}
	line := func(l geom.LineString) geom.LineString {
		if l.IsEmpty() {
			return l
		}
		return geom.NewLineString(lineFn(l.Coordinates()))
	}
	switch g.Type() {
	case geom.TypeLineString:
		return line(g.MustAsLineString()).AsGeometry()
	case geom.TypeMultiLineString:
		ml := g.MustAsMultiLineString()
		out := make([]geom.LineString, ml.NumLineStrings())
		for i := range out {
			out[i] = line(ml.LineStringN(i))
		}
		return geom.NewMultiLineString(out).ForceCoordinatesType(ct).AsGeometry()
	case geom.TypePolygon:
		return poly(g.MustAsPolygon()).AsGeometry()
	case geom.TypeMultiPolygon:
		mp := g.MustAsMultiPolygon()
		out := make([]geom.Polygon, mp.NumPolygons())
		for i := range out {
			out[i] = poly(mp.PolygonN(i))
		}
		return geom.NewMultiPolygon(out).ForceCoordinatesType(ct).AsGeometry()
	case geom.TypeGeometryCollection:
		gc := g.MustAsGeometryCollection()
		out := make([]geom.Geometry, gc.NumGeometries())
		for i := range out {
			out[i] = Rebuild(gc.GeometryN(i), lineFn, ringFn)
		}
		return geom.NewGeometryCollection(out).ForceCoordinatesType(ct).AsGeometry()
	}
	return g
}

// RotateRing returns the closed ring sequence rotated to start at vertex k.
func RotateRing(s geom.Sequence, k int) geom.Sequence {
	n := s.Length()
	if n < 2 {
		return s
	}
	ct := s.CoordinatesType()
	dim := ct.Dimension()
	m := n - 1
	k = ((k % m) + m) % m
	fs := make([]float64, 0, n*dim)
	for i := 0; i <= m; i++ {
		c := s.Get((k + i) % m)
		fs = append(fs, c.X, c.Y)
		if ct.Is3D() {
			fs = append(fs, c.Z)
		}
		if ct.IsMeasured() {
			fs = append(fs, c.M)
		}
	}
	return geom.NewSequence(fs, ct)
}

// Members lists the direct members of a Multi*/collection (nil otherwise).
func Members(g geom.Geometry) []geom.Geometry {
	var out []geom.Geometry
	switch g.Type() {
	case geom.TypeMultiPoint:
		mp := g.MustAsMultiPoint()
		for i := 0; i < mp.NumPoints(); i++ {
			out = append(out, mp.PointN(i).AsGeometry())
		}
	case geom.TypeMultiLineString:
		ml := g.MustAsMultiLineString()
		for i := 0; i < ml.NumLineStrings(); i++ {
			out = append(out, ml.LineStringN(i).AsGeometry())
		}
	case geom.TypeMultiPolygon:
		mp := g.MustAsMultiPolygon()
		for i := 0; i < mp.NumPolygons(); i++ {
			out = append(out, mp.PolygonN(i).AsGeometry())
		}
	case geom.TypeGeometryCollection:
		gc := g.MustAsGeometryCollection()
		for i := 0; i < gc.NumGeometries(); i++ {
			out = append(out, gc.GeometryN(i))
		}
	default:
		return nil
	}
	return out
}

// WithMembers rebuilds a Multi*/collection of the same type from members.
func WithMembers(g geom.Geometry, ms []geom.Geometry) geom.Geometry {
	ct := g.CoordinatesType()
	switch g.Type() {
	case geom.TypeMultiPoint:
		out := make([]geom.Point, len(ms))
		for i, m := range ms {
			out[i] = m.MustAsPoint()
		}
		return geom.NewMultiPoint(out).ForceCoordinatesType(ct).AsGeometry()
	case geom.TypeMultiLineString:
		out := make([]geom.LineString, len(ms))
		for i, m := range ms {
			out[i] = m.MustAsLineString()
		}
		return geom.NewMultiLineString(out).ForceCoordinatesType(ct).AsGeometry()
	case geom.TypeMultiPolygon:
		out := make([]geom.Polygon, len(ms))
		for i, m := range ms {
			out[i] = m.MustAsPolygon()
		}
		return geom.NewMultiPolygon(out).ForceCoordinatesType(ct).AsGeometry()
	case geom.TypeGeometryCollection:
		return geom.NewGeometryCollection(ms).ForceCoordinatesType(ct).AsGeometry()
	}
	return g
}

// Permute returns g with its direct members permuted.
func Permute(r *run.Rng, g geom.Geometry) geom.Geometry {
	ms := Members(g)
	if len(ms) < 2 {
		return g
	}
	p := r.Perm(len(ms))
	out := make([]geom.Geometry, len(ms))
	for i, j := range p {
		out[i] = ms[j]
	}
	return WithMembers(g, out)
}

// AnchorAtOrigin translates g (by integers when its ordinates are integers) so that one of its control
// points, chosen by r, lies exactly at (0 0) — the XY that the zero value of a coordinate, an unset box
// and an empty Point's payload all share. Empty geometries are returned unchanged.
func AnchorAtOrigin(r *run.Rng, g geom.Geometry) geom.Geometry {
	t, _ := model.FromGeom(g)
	var pts [][2]float64
	t.Map(func(c []float64, _ geom.CoordinatesType) { pts = append(pts, [2]float64{c[0], c[1]}) })
	if len(pts) == 0 {
		return g
	}
	p := pts[r.Intn(len(pts))]
	return model.ToGeom(t.Map(func(c []float64, _ geom.CoordinatesType) { c[0] -= p[0]; c[1] -= p[1] }))
}

// Payload rebuilds g (any coordinate type) as a geometry of coordinate type ct with the same XY, structure,
// member order and emptiness, and with Z/M drawn independently at every control point: control points
// that share an XY location (ring closing points, repeated vertices, touching members) get *different*
// Z/M values. Everything the properties define on the point set in the plane (validity, simplicity,
// closedness, DE-9IM, predicates, distance, envelope, hull, measures, boundary location) must not see it.
func Payload(r *run.Rng, g geom.Geometry, ct geom.CoordinatesType) geom.Geometry {
	n := 0
	val := func() float64 {
		n++
		switch r.Intn(8) {
		case 0, 1:
			return float64(r.Range(-3, 3))
		case 2: // far outside the XY extent of any workload
			return float64(r.Range(-2, 2)) * (1e6 + float64(n))
		}
		return float64(n*7) + 0.5
	}
	seq := func(s geom.Sequence) geom.Sequence {
		fs := make([]float64, 0, s.Length()*ct.Dimension())
		for i := 0; i < s.Length(); i++ {
			xy := s.GetXY(i)
			fs = append(fs, xy.X, xy.Y)
			if ct.Is3D() {
				fs = append(fs, val())
			}
			if ct.IsMeasured() {
				fs = append(fs, val())
			}
		}
		return geom.NewSequence(fs, ct)
	}
	point := func(p geom.Point) geom.Point {
		xy, ok := p.XY()
		if !ok {
			return p.ForceCoordinatesType(ct)
		}
		c := geom.Coordinates{XY: xy, Type: ct}
		if ct.Is3D() {
			c.Z = val()
		}
		if ct.IsMeasured() {
			c.M = val()
		}
		return geom.NewPoint(c)
	}
	line := func(l geom.LineString) geom.LineString {
		if l.IsEmpty() {
			return l.ForceCoordinatesType(ct)
		}
		return geom.NewLineString(seq(l.Coordinates()))
	}
	poly := func(p geom.Polygon) geom.Polygon {
		if p.IsEmpty() {
			return p.ForceCoordinatesType(ct)
		}
		rs := p.DumpRings()
		out := make([]geom.LineString, len(rs))
		for i, rg := range rs {
			out[i] = geom.NewLineString(seq(rg.Coordinates()))
		}
		return geom.NewPolygon(out)
	}
	switch g.Type() {
	case geom.TypePoint:
		return point(g.MustAsPoint()).AsGeometry()
	case geom.TypeMultiPoint:
		mp := g.MustAsMultiPoint()
		out := make([]geom.Point, mp.NumPoints())
		for i := range out {
			out[i] = point(mp.PointN(i))
		}
		return geom.NewMultiPoint(out).ForceCoordinatesType(ct).AsGeometry()
	case geom.TypeLineString:
		return line(g.MustAsLineString()).AsGeometry()
	case geom.TypeMultiLineString:
		ml := g.MustAsMultiLineString()
		out := make([]geom.LineString, ml.NumLineStrings())
		for i := range out {
			out[i] = line(ml.LineStringN(i))
		}
		return geom.NewMultiLineString(out).ForceCoordinatesType(ct).AsGeometry()
	case geom.TypePolygon:
		return poly(g.MustAsPolygon()).AsGeometry()
	case geom.TypeMultiPolygon:
		mp := g.MustAsMultiPolygon()
		out := make([]geom.Polygon, mp.NumPolygons())
		for i := range out {
			out[i] = poly(mp.PolygonN(i))
		}
		return geom.NewMultiPolygon(out).ForceCoordinatesType(ct).AsGeometry()
	default:
		gc := g.MustAsGeometryCollection()
		out := make([]geom.Geometry, gc.NumGeometries())
		for i := range out {
			out[i] = Payload(r, gc.GeometryN(i), ct)
		}
		return geom.NewGeometryCollection(out).ForceCoordinatesType(ct).AsGeometry()
	}
}

// PayloadCT draws one of the three coordinate types that carry a payload.
func PayloadCT(r *run.Rng) geom.CoordinatesType {
	return []geom.CoordinatesType{geom.DimXYZ, geom.DimXYM, geom.DimXYZM}[r.Intn(3)]
}
