// Package c12 monitors Envelope(): tightness against a direct min/max scan,
// invariances, joins, and every Envelope method against closed-interval
// arithmetic on an exhaustive lattice of envelopes.
package c12

import (
	"fmt"
	"math"

	"github.com/peterstace/simplefeatures/geom"

	"verif/gen"
	"verif/props/shared"
	"verif/run"
)

func init() {
	run.Register(&run.Property{
		ID:    "C12",
		Title: "Envelopes are the tightest boxes; envelope algebra matches interval arithmetic",
		Rule: "[added in rounds 9-11: invariance also under independent Z/M at every control point] two workloads: (1) generated valid geometries of every type x coordinate type with empty members (D-small/D-large/D-gp): Envelope() against min/max over DumpCoordinates, invariances, member joins, Union join; " +
			"(2) the exhaustive lattice of envelopes with ordinates in {0,1,2,3,5,8} plus the empty envelope (442 envelopes, all ordered pairs, sampled triples): every exported Envelope method against its closed-interval definition. " +
			"non-trivial = geometry with >= 2 control points, or an envelope pair; distinct by WKB / by the envelope tuple",
		Assumptions:      []string{"lattice ordinates are small integers so every expected value is exact in float64", "geometries are valid (a polygon's envelope is documented from its exterior ring)"},
		MinNontrivial:    500,
		RequiredMonitors: []string{"tight", "empty-iff", "invariance", "join", "union-join", "method-Contains", "method-Intersects", "method-Covers", "method-Distance", "method-BoundingDiagonal", "method-AsGeometry", "method-classify", "algebra", "concrete-entry"},
		Run:              runAll,
	})
}

type box struct {
	empty          bool
	x0, y0, x1, y1 float64
}

func (b box) env() geom.Envelope {
	if b.empty {
		return geom.Envelope{}
	}
	return geom.NewEnvelope(geom.XY{X: b.x0, Y: b.y0}, geom.XY{X: b.x1, Y: b.y1})
}

func sameEnv(e geom.Envelope, b box) bool {
	if b.empty {
		return e.IsEmpty()
	}
	mn, mx, ok := e.MinMaxXYs()
	return ok && !e.IsEmpty() && mn.X == b.x0 && mn.Y == b.y0 && mx.X == b.x1 && mx.Y == b.y1
}

func envEq(a, b geom.Envelope) bool {
	if a.IsEmpty() || b.IsEmpty() {
		return a.IsEmpty() == b.IsEmpty()
	}
	a0, a1, _ := a.MinMaxXYs()
	b0, b1, _ := b.MinMaxXYs()
	return a0 == b0 && a1 == b1
}

func join(a, b box) box {
	if a.empty {
		return b
	}
	if b.empty {
		return a
	}
	return box{false, math.Min(a.x0, b.x0), math.Min(a.y0, b.y0), math.Max(a.x1, b.x1), math.Max(a.y1, b.y1)}
}

func scanBox(g geom.Geometry) box {
	s := g.DumpCoordinates()
	if s.Length() == 0 {
		return box{empty: true}
	}
	p := s.GetXY(0)
	b := box{false, p.X, p.Y, p.X, p.Y}
	for i := 1; i < s.Length(); i++ {
		q := s.GetXY(i)
		b = join(b, box{false, q.X, q.Y, q.X, q.Y})
	}
	return b
}

func permuteMembers(r *run.Rng, g geom.Geometry) geom.Geometry {
	switch g.Type() {
	case geom.TypeMultiPoint:
		mp := g.MustAsMultiPoint()
		p := r.Perm(mp.NumPoints())
		out := make([]geom.Point, len(p))
		for i, j := range p {
			out[i] = mp.PointN(j)
		}
		return geom.NewMultiPoint(out).AsGeometry()
	case geom.TypeMultiLineString:
		ml := g.MustAsMultiLineString()
		p := r.Perm(ml.NumLineStrings())
		out := make([]geom.LineString, len(p))
		for i, j := range p {
			out[i] = ml.LineStringN(j)
		}
		return geom.NewMultiLineString(out).AsGeometry()
	case geom.TypeMultiPolygon:
		mp := g.MustAsMultiPolygon()
		p := r.Perm(mp.NumPolygons())
		out := make([]geom.Polygon, len(p))
		for i, j := range p {
			out[i] = mp.PolygonN(j)
		}
		return geom.NewMultiPolygon(out).AsGeometry()
	case geom.TypeGeometryCollection:
		gc := g.MustAsGeometryCollection()
		p := r.Perm(gc.NumGeometries())
		out := make([]geom.Geometry, len(p))
		for i, j := range p {
			out[i] = gc.GeometryN(j)
		}
		return geom.NewGeometryCollection(out).AsGeometry()
	}
	return g
}

func members(g geom.Geometry) []geom.Geometry {
	var out []geom.Geometry
	switch g.Type() {
	case geom.TypeMultiPoint:
		mp := g.MustAsMultiPoint()
		for i := 0; i < mp.NumPoints(); i++ {
			out = append(out, mp.PointN(i).AsGeometry())
		}
	case geom.TypeMultiLineString:
		ml := g.MustAsMultiLineString()
		for i := 0; i < ml.NumLineStrings(); i++ {
			out = append(out, ml.LineStringN(i).AsGeometry())
		}
	case geom.TypeMultiPolygon:
		mp := g.MustAsMultiPolygon()
		for i := 0; i < mp.NumPolygons(); i++ {
			out = append(out, mp.PolygonN(i).AsGeometry())
		}
	case geom.TypeGeometryCollection:
		gc := g.MustAsGeometryCollection()
		for i := 0; i < gc.NumGeometries(); i++ {
			out = append(out, gc.GeometryN(i))
		}
	default:
		return nil
	}
	return out
}

func geomCase(k *run.K) {
	domain := shared.PickDomain(k.Rng)
	gg := &gen.G{R: k.Rng, Cfg: gen.NewCfg(k.Rng, domain)}
	g := gg.Rich(2)
	k.In("domain", domain)
	k.In("g", shared.WKT(g))
	want := scanBox(g)
	e := g.Envelope()
	shared.ConcreteAgree(k, g, "concrete-entry", []shared.Call{{Method: "Envelope"}}, nil)
	if g.DumpCoordinates().Length() >= 2 {
		k.Nontrivial(string(g.AsBinary()))
	}
	k.Obs("envelope", e.String())
	k.Check("tight", sameEnv(e, want), "Envelope()=%v, min/max over control points = %+v", e, want)
	k.Check("empty-iff", e.IsEmpty() == g.IsEmpty(), "Envelope().IsEmpty()=%v but geometry IsEmpty()=%v", e.IsEmpty(), g.IsEmpty())
	// contains every control point, each side touches one
	s := g.DumpCoordinates()
	allIn := true
	for i := 0; i < s.Length(); i++ {
		if !e.Contains(s.GetXY(i)) {
			allIn = false
		}
	}
	k.Check("tight", allIn, "Envelope() %v does not contain every control point", e)
	// invariances
	inv := map[string]geom.Geometry{
		"Reverse": g.Reverse(), "Force2D": g.Force2D(), "ForceCW": g.ForceCW(), "ForceCCW": g.ForceCCW(),
		"ForceXYZ": g.ForceCoordinatesType(geom.DimXYZ), "ForceXYM": g.ForceCoordinatesType(geom.DimXYM),
		"ForceXYZM": g.ForceCoordinatesType(geom.DimXYZM), "permute": permuteMembers(k.Rng, g),
		"independent Z/M at every control point": shared.Payload(k.Rng, g, shared.PayloadCT(k.Rng)),
	}
	for name, h := range inv {
		k.Check("invariance", envEq(h.Envelope(), e), "envelope changed under %s: %v -> %v", name, e, h.Envelope())
	}
	// typed Envelope() of the concrete type equals Geometry.Envelope()
	var te geom.Envelope
	switch g.Type() {
	case geom.TypePoint:
		te = g.MustAsPoint().Envelope()
	case geom.TypeMultiPoint:
		te = g.MustAsMultiPoint().Envelope()
	case geom.TypeLineString:
		te = g.MustAsLineString().Envelope()
	case geom.TypeMultiLineString:
		te = g.MustAsMultiLineString().Envelope()
	case geom.TypePolygon:
		te = g.MustAsPolygon().Envelope()
	case geom.TypeMultiPolygon:
		te = g.MustAsMultiPolygon().Envelope()
	default:
		te = g.MustAsGeometryCollection().Envelope()
	}
	k.Check("tight", envEq(te, e), "concrete-type Envelope() %v differs from Geometry.Envelope() %v", te, e)
	// join of members
	if ms := members(g); ms != nil {
		var j geom.Envelope
		for _, m := range ms {
			j = j.ExpandToIncludeEnvelope(m.Envelope())
		}
		k.Check("join", envEq(j, e), "envelope %v is not the join of the member envelopes %v", e, j)
	}
	// Union join
	h := gg.Rich(1)
	k.In("h", shared.WKT(h))
	var u geom.Geometry
	var err error
	if !k.Lib("nopanic", func() { u, err = geom.Union(g, h) }) && err == nil {
		wj := join(want, scanBox(h))
		ue := u.Envelope()
		m := 1.0
		for _, v := range []float64{wj.x0, wj.y0, wj.x1, wj.y1} {
			m = math.Max(m, math.Abs(v))
		}
		ok := wj.empty == ue.IsEmpty()
		if ok && !wj.empty {
			a, b, _ := ue.MinMaxXYs()
			tol := 1e-9 * m
			ok = math.Abs(a.X-wj.x0) <= tol && math.Abs(a.Y-wj.y0) <= tol && math.Abs(b.X-wj.x1) <= tol && math.Abs(b.Y-wj.y1) <= tol
		}
		k.Check("union-join", ok, "Union(g,h).Envelope()=%v, join of operand envelopes=%+v", ue, wj)
	} else {
		k.Skip("union-join")
	}
}

var vals = []float64{0, 1, 2, 3, 5, 8}

func lattice() []box {
	bs := []box{{empty: true}}
	for i, x0 := range vals {
		for _, x1 := range vals[i:] {
			for j, y0 := range vals {
				for _, y1 := range vals[j:] {
					bs = append(bs, box{false, x0, y0, x1, y1})
				}
			}
		}
	}
	return bs
}

func (b box) String() string {
	if b.empty {
		return "EMPTY"
	}
	return fmt.Sprintf("[%g,%g]x[%g,%g]", b.x0, b.x1, b.y0, b.y1)
}

func unary(k *run.K, b box) {
	e := b.env()
	k.Check("method-classify", sameEnv(e, b), "NewEnvelope round trip %v -> %v", b, e)
	w, h := b.x1-b.x0, b.y1-b.y0
	if b.empty {
		w, h = 0, 0
	}
	isPt := !b.empty && w == 0 && h == 0
	isLn := !b.empty && (w == 0) != (h == 0)
	isRect := !b.empty && w > 0 && h > 0
	k.Check("method-classify", e.IsEmpty() == b.empty && e.IsPoint() == isPt && e.IsLine() == isLn && e.IsRectangle() == isRect,
		"%v: IsEmpty/IsPoint/IsLine/IsRectangle = %v/%v/%v/%v", b, e.IsEmpty(), e.IsPoint(), e.IsLine(), e.IsRectangle())
	k.Check("method-measures", e.Width() == w && e.Height() == h && e.Area() == w*h, "%v: Width/Height/Area = %g/%g/%g", b, e.Width(), e.Height(), e.Area())
	c := e.Center()
	cxy, cok := c.XY()
	k.Check("method-measures", cok == !b.empty && (b.empty || (cxy.X == (b.x0+b.x1)/2 && cxy.Y == (b.y0+b.y1)/2)), "%v: Center = %v", b, c.AsText())
	mn, mnok := e.Min().XY()
	mx, mxok := e.Max().XY()
	k.Check("method-measures", mnok == !b.empty && mxok == !b.empty && (b.empty || (mn == geom.XY{X: b.x0, Y: b.y0} && mx == geom.XY{X: b.x1, Y: b.y1})), "%v: Min/Max = %v %v", b, mn, mx)
	bx, bok := e.AsBox()
	k.Check("method-measures", bok == !b.empty && (b.empty || (bx.MinX == b.x0 && bx.MinY == b.y0 && bx.MaxX == b.x1 && bx.MaxY == b.y1)), "%v: AsBox = %v %v", b, bx, bok)
	k.Check("method-measures", e.Validate() == nil, "%v: Validate error", b)
	// AsGeometry
	g := e.AsGeometry()
	wantType := geom.TypePolygon
	switch {
	case b.empty:
		wantType = geom.TypeGeometryCollection
	case isPt:
		wantType = geom.TypePoint
	case isLn:
		wantType = geom.TypeLineString
	}
	k.Check("method-AsGeometry", g.Type() == wantType && g.IsEmpty() == b.empty && envEq(g.Envelope(), e) && g.Validate() == nil && g.Area() == w*h,
		"%v: AsGeometry = %s", b, g.AsText())
	// BoundingDiagonal
	d := e.BoundingDiagonal()
	wantType = geom.TypeLineString
	switch {
	case b.empty:
		wantType = geom.TypeGeometryCollection
	case isPt:
		wantType = geom.TypePoint
	}
	okd := d.Type() == wantType && d.IsEmpty() == b.empty && envEq(d.Envelope(), e)
	if okd && wantType == geom.TypeLineString {
		s := d.MustAsLineString().Coordinates()
		okd = s.Length() == 2 && s.GetXY(0) == geom.XY{X: b.x0, Y: b.y0} && s.GetXY(1) == geom.XY{X: b.x1, Y: b.y1}
	}
	k.Check("method-BoundingDiagonal", okd, "%v: BoundingDiagonal = %s", b, d.AsText())
	// Contains over a point grid incl. half values
	for x := -0.5; x <= 8.5; x += 0.5 {
		for y := -0.5; y <= 8.5; y += 0.5 {
			want := !b.empty && x >= b.x0 && x <= b.x1 && y >= b.y0 && y <= b.y1
			k.Check("method-Contains", e.Contains(geom.XY{X: x, Y: y}) == want, "%v.Contains(%g,%g) = %v", b, x, y, !want)
		}
	}
	k.Check("method-Contains", !e.Contains(geom.XY{X: math.NaN(), Y: 1}) && !e.Contains(geom.XY{X: 1, Y: math.Inf(1)}), "%v contains a non-finite point", b)
	// ExpandToIncludeXY
	for _, p := range []geom.XY{{X: -1, Y: 4}, {X: 4, Y: 4}, {X: 9, Y: -2}, {X: 2, Y: 2}} {
		k.Check("method-Expand", sameEnv(e.ExpandToIncludeXY(p), join(b, box{false, p.X, p.Y, p.X, p.Y})), "%v.ExpandToIncludeXY(%v) = %v", b, p, e.ExpandToIncludeXY(p))
	}
	// TransformXY with per-axis monotone / antitone maps
	for name, f := range map[string]func(geom.XY) geom.XY{
		"translate": func(p geom.XY) geom.XY { return geom.XY{X: p.X + 3, Y: p.Y - 7} },
		"flip":      func(p geom.XY) geom.XY { return geom.XY{X: -2 * p.X, Y: 3 * p.Y} },
		"flipboth":  func(p geom.XY) geom.XY { return geom.XY{X: 10 - p.X, Y: 1 - p.Y} },
	} {
		want := box{empty: true}
		if !b.empty {
			u, v := f(geom.XY{X: b.x0, Y: b.y0}), f(geom.XY{X: b.x1, Y: b.y1})
			want = box{false, math.Min(u.X, v.X), math.Min(u.Y, v.Y), math.Max(u.X, v.X), math.Max(u.Y, v.Y)}
		}
		k.Check("method-TransformXY", sameEnv(e.TransformXY(f), want), "%v.TransformXY(%s) = %v, want %v", b, name, e.TransformXY(f), want)
	}
}

func binary(k *run.K, a, b box) {
	ea, eb := a.env(), b.env()
	both := !a.empty && !b.empty
	inter := both && a.x0 <= b.x1 && b.x0 <= a.x1 && a.y0 <= b.y1 && b.y0 <= a.y1
	covers := both && a.x0 <= b.x0 && a.y0 <= b.y0 && a.x1 >= b.x1 && a.y1 >= b.y1
	k.Check("method-Intersects", ea.Intersects(eb) == inter, "%v.Intersects(%v) = %v", a, b, !inter)
	k.Check("method-Covers", ea.Covers(eb) == covers, "%v.Covers(%v) = %v", a, b, !covers)
	d, ok := ea.Distance(eb)
	wd := 0.0
	if both {
		dx := math.Max(0, math.Max(b.x0-a.x1, a.x0-b.x1))
		dy := math.Max(0, math.Max(b.y0-a.y1, a.y0-b.y1))
		wd = math.Sqrt(dx*dx + dy*dy)
	}
	k.Check("method-Distance", ok == both && (!both || d == wd) && (!both || (d == 0) == inter), "%v.Distance(%v) = %g,%v want %g,%v", a, b, d, ok, wd, both)
	k.Check("method-Expand", sameEnv(ea.ExpandToIncludeEnvelope(eb), join(a, b)), "%v.ExpandToIncludeEnvelope(%v) = %v", a, b, ea.ExpandToIncludeEnvelope(eb))
	// algebra: symmetry and consistency
	k.Check("algebra", ea.Intersects(eb) == eb.Intersects(ea), "Intersects not symmetric for %v %v", a, b)
	d2, ok2 := eb.Distance(ea)
	k.Check("algebra", d == d2 && ok == ok2, "Distance not symmetric for %v %v", a, b)
	if covers {
		k.Check("algebra", inter && envEq(ea.ExpandToIncludeEnvelope(eb), ea), "%v covers %v but join/intersects disagree", a, b)
	}
	if both {
		k.Check("algebra", ea.ExpandToIncludeEnvelope(eb).Covers(ea) && ea.ExpandToIncludeEnvelope(eb).Covers(eb), "join of %v %v does not cover both", a, b)
	}
}

func runAll(c *run.Ctx) {
	for i := 0; i < c.N(6000, 100000); i++ {
		c.Case("geom", i, geomCase)
	}
	bs := lattice()
	for i, b := range bs {
		c.Case("env-unary", i, func(k *run.K) {
			k.In("envelope", b.String())
			k.Nontrivial("u" + b.String())
			unary(k, b)
		})
	}
	// the same lattice at extreme magnitudes (exact powers of two, so the interval arithmetic stays exact):
	// extents whose product underflows or overflows must not change the classification
	for si, sc := range []float64{math.Ldexp(1, -560), math.Ldexp(1, -1040), math.Ldexp(1, 500)} {
		for i, b := range bs {
			if b.empty {
				continue
			}
			sb := box{false, b.x0 * sc, b.y0 * sc, b.x1 * sc, b.y1 * sc}
			c.Case(fmt.Sprintf("env-scaled:%d", si), i, func(k *run.K) {
				k.In("envelope", sb.String())
				k.Nontrivial("s" + sb.String())
				e := sb.env()
				w, h := sb.x1-sb.x0, sb.y1-sb.y0
				isPt := w == 0 && h == 0
				isLn := (w == 0) != (h == 0)
				isRect := w > 0 && h > 0
				k.Check("method-classify", !e.IsEmpty() && e.IsPoint() == isPt && e.IsLine() == isLn && e.IsRectangle() == isRect,
					"%v: IsEmpty/IsPoint/IsLine/IsRectangle = %v/%v/%v/%v", sb, e.IsEmpty(), e.IsPoint(), e.IsLine(), e.IsRectangle())
				g := e.AsGeometry()
				wantType := geom.TypePolygon
				if isPt {
					wantType = geom.TypePoint
				} else if isLn {
					wantType = geom.TypeLineString
				}
				k.Check("method-AsGeometry", g.Type() == wantType && envEq(g.Envelope(), e), "%v: AsGeometry = %s", sb, g.AsText())
				k.Check("method-measures", e.Width() == w && e.Height() == h, "%v: Width/Height = %g/%g", sb, e.Width(), e.Height())
			})
		}
	}
	// all ordered pairs, in blocks of one first operand per case
	for i, a := range bs {
		c.Case("env-pairs", i, func(k *run.K) {
			k.In("first", a.String())
			k.Nontrivial("p" + a.String())
			for _, b := range bs {
				binary(k, a, b)
			}
			k.Count("envelope_pairs", int64(len(bs)))
		})
	}
	// triples (sampled): associativity of join, transitivity of Covers
	for i := 0; i < c.N(300, 3000); i++ {
		c.Case("env-triples", i, func(k *run.K) {
			for j := 0; j < 300; j++ {
				a, b, cc := bs[k.Rng.Intn(len(bs))], bs[k.Rng.Intn(len(bs))], bs[k.Rng.Intn(len(bs))]
				ea, eb, ec := a.env(), b.env(), cc.env()
				l := ea.ExpandToIncludeEnvelope(eb).ExpandToIncludeEnvelope(ec)
				r := ea.ExpandToIncludeEnvelope(eb.ExpandToIncludeEnvelope(ec))
				k.Check("algebra", envEq(l, r) && sameEnv(l, join(join(a, b), cc)), "join not associative for %v %v %v", a, b, cc)
				if ea.Covers(eb) && eb.Covers(ec) {
					k.Check("algebra", ea.Covers(ec), "Covers not transitive for %v %v %v", a, b, cc)
				}
				ne := geom.NewEnvelope(geom.XY{X: a.x0, Y: a.y0}, geom.XY{X: b.x1, Y: b.y1}, geom.XY{X: cc.x0, Y: cc.y1})
				k.Check("algebra", !ne.IsEmpty() && ne.Contains(geom.XY{X: a.x0, Y: a.y0}) && ne.Contains(geom.XY{X: b.x1, Y: b.y1}) && ne.Contains(geom.XY{X: cc.x0, Y: cc.y1}), "NewEnvelope of three points does not contain them")
			}
			k.Count("envelope_triples", 300)
			if i == 0 {
				k.In("note", "300 PRNG triples of lattice envelopes per case")
			}
		})
	}
}
