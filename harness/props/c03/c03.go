// Package c03 monitors Validate / IsSimple / IsRing / IsClosed and the
// validating decoders against the exact validity oracle, across every
// representation of each candidate.
package c03

import (
	"fmt"
	"math"
	"sort"

	"github.com/peterstace/simplefeatures/geom"

	"verif/exact"
	"verif/props/shared"
	"verif/run"
)

func init() {
	run.Register(&run.Property{
		ID:    "C03",
		Title: "Validation accepts exactly the geometries that satisfy the OGC validity rules",
		Rule: "[added in rounds 9-11: payload-blind: Validate/IsSimple/IsClosed/IsRing and the decoder gate are re-judged on copies carrying independent Z/M at every control point] cases = geometries built WITHOUT validation from lattice walks on grids of side 3..6 (rings of 3..9 vertices, polygons of 1..4 rings, MultiPolygons of 1..3 members, LineStrings, MultiLineStrings, MultiPoints, collections) with vertex-sharing bias (rings starting on a vertex of another ring, holes on shell vertices/edges, hole-in-hole sharing a vertex, touch chains), each under up to 64 representations (ring rotations, directions, hole and member permutations, integer translation, axis reflection); " +
			"exhaustive sub-spaces: every closed 3- and 4-vertex ring on the 3x3 grid; pairs of lattice triangles of the 4x4 grid as shell+hole and as two members; pairs of triangular holes from a 4x4 sub-grid in a fixed 7x7 shell under all start vertices and directions (complete in the thorough tier, strided in quick); NaN/Inf planted at every ordinate position. " +
			"non-trivial = at least two rings/members whose envelopes intersect, or a ring with a self-contact; distinct by the canonical candidate text",
		Assumptions:      []string{"lattice inputs: the oracle (verif/exact: ring simplicity, <=1 common point per ring pair, containment, nesting, interior connectedness by two independent criteria, member interiors/edges via the arrangement) is exact", "oracle inconsistency between its two connectedness criteria => case skipped and counted"},
		MinNontrivial:    500,
		RequiredMonitors: []string{"oracle-vs-validate", "repr-invariance", "simple", "ring-closed", "decoder-gate", "nonfinite", "collection-gate", "concrete-entry", "payload-blind"},
		Run:              runAll,
	})
}

type ip struct{ x, y int }
type ring []ip   // closed: first == last
type poly []ring // [0] shell

func (r ring) seq(tx, ty int, flip bool) geom.Sequence {
	fs := make([]float64, 0, 2*len(r))
	for _, p := range r {
		x := p.x
		if flip {
			x = -x
		}
		fs = append(fs, float64(x+tx), float64(p.y+ty))
	}
	return geom.NewSequence(fs, geom.DimXY)
}

func (p poly) geom(tx, ty int, flip bool) geom.Polygon {
	ls := make([]geom.LineString, len(p))
	for i, r := range p {
		ls[i] = geom.NewLineString(r.seq(tx, ty, flip))
	}
	return geom.NewPolygon(ls)
}

func rot(r ring, k int, rev bool) ring {
	n := len(r) - 1
	if n < 1 {
		return r
	}
	out := make(ring, 0, len(r))
	for i := 0; i <= n; i++ {
		j := (k + i) % n
		if rev {
			j = ((k-i)%n + n) % n
		}
		out = append(out, r[j])
	}
	return out
}

// ---------- candidate generators ----------

func rp(r *run.Rng, side int) ip { return ip{r.Intn(side + 1), r.Intn(side + 1)} }

func randRing(r *run.Rng, side int, n int) ring {
	var out ring
	for i := 0; i < n; i++ {
		out = append(out, rp(r, side))
	}
	return append(out, out[0])
}

func cross(o, a, b ip) int { return (a.x-o.x)*(b.y-o.y) - (a.y-o.y)*(b.x-o.x) }

func hull(ps []ip) []ip {
	p := append([]ip(nil), ps...)
	sort.Slice(p, func(i, j int) bool {
		if p[i].x != p[j].x {
			return p[i].x < p[j].x
		}
		return p[i].y < p[j].y
	})
	var u []ip
	for _, q := range p {
		if len(u) == 0 || u[len(u)-1] != q {
			u = append(u, q)
		}
	}
	if len(u) < 3 {
		return u
	}
	var h []ip
	for _, q := range u {
		for len(h) >= 2 && cross(h[len(h)-2], h[len(h)-1], q) <= 0 {
			h = h[:len(h)-1]
		}
		h = append(h, q)
	}
	lo := len(h) + 1
	for i := len(u) - 2; i >= 0; i-- {
		for len(h) >= lo && cross(h[len(h)-2], h[len(h)-1], u[i]) <= 0 {
			h = h[:len(h)-1]
		}
		h = append(h, u[i])
	}
	return h[:len(h)-1]
}

func convexRing(r *run.Rng, side, n int, pts []ip) ring {
	for t := 0; t < 20; t++ {
		var ps []ip
		ps = append(ps, pts...)
		for len(ps) < n {
			ps = append(ps, rp(r, side))
		}
		h := hull(ps)
		if len(h) >= 3 {
			return append(ring(h), h[0])
		}
	}
	return ring{{0, 0}, {1, 0}, {0, 1}, {0, 0}}
}

func onEdge(r *run.Rng, rg ring) (ip, bool) {
	// a lattice point in the interior of an edge of rg, if any
	for t := 0; t < 10; t++ {
		i := r.Intn(len(rg) - 1)
		a, b := rg[i], rg[i+1]
		dx, dy := b.x-a.x, b.y-a.y
		g := gcd(abs(dx), abs(dy))
		if g >= 2 {
			k := r.Range(1, g-1)
			return ip{a.x + dx/g*k, a.y + dy/g*k}, true
		}
	}
	return ip{}, false
}

func abs(a int) int {
	if a < 0 {
		return -a
	}
	return a
}
func gcd(a, b int) int {
	for b != 0 {
		a, b = b, a%b
	}
	return a
}

func randPoly(r *run.Rng) poly {
	side := r.Range(3, 6)
	var shell ring
	switch r.Intn(4) {
	case 0:
		shell = randRing(r, side, r.Range(3, 7)) // arbitrary closed walk (often invalid)
	case 1:
		shell = ring{{0, 0}, {side, 0}, {side, side}, {0, side}, {0, 0}}
	default:
		shell = convexRing(r, side, r.Range(3, 7), nil)
	}
	p := poly{shell}
	for h := r.Intn(4); h > 0; h-- {
		var forced []ip
		switch r.Intn(6) {
		case 0: // starts on a vertex of a previous ring
			src := p[r.Intn(len(p))]
			forced = []ip{src[r.Intn(len(src)-1)]}
		case 1: // on an edge interior of a previous ring
			if q, ok := onEdge(r, p[r.Intn(len(p))]); ok {
				forced = []ip{q}
			}
		case 2: // two shared vertices
			src := p[r.Intn(len(p))]
			forced = []ip{src[r.Intn(len(src)-1)], src[r.Intn(len(src)-1)]}
		}
		var hole ring
		if r.Chance(1, 5) {
			hole = randRing(r, side, r.Range(3, 5))
			if len(forced) > 0 {
				hole[0], hole[len(hole)-1] = forced[0], forced[0]
			}
		} else {
			hole = convexRing(r, side, r.Range(3, 4), forced)
			// make the forced vertex the start of the ring half of the time
			if len(forced) > 0 && r.Bool() {
				for k := 0; k < len(hole)-1; k++ {
					if hole[k] == forced[0] {
						hole = rot(hole, k, false)
						break
					}
				}
			}
		}
		p = append(p, hole)
	}
	return p
}

// nestedPair: a hole inside another hole sharing exactly one vertex.
func nestedPair(r *run.Rng) poly {
	side := 8
	shell := ring{{0, 0}, {side, 0}, {side, side}, {0, side}, {0, 0}}
	for t := 0; t < 50; t++ {
		outer := convexRing(r, side-2, r.Range(3, 5), nil)
		for i := range outer {
			outer[i].x++
			outer[i].y++
		}
		v := outer[r.Intn(len(outer)-1)]
		var pts []ip
		for i := 0; i < 4; i++ {
			q := ip{r.Range(1, side-1), r.Range(1, side-1)}
			pts = append(pts, q)
		}
		inner := convexRing(r, side, 3, append([]ip{v}, pts[:2]...))
		// rotate inner so that it starts (or not) at the shared vertex
		for k := 0; k < len(inner)-1; k++ {
			if inner[k] == v && r.Chance(2, 3) {
				inner = rot(inner, k, r.Bool())
				break
			}
		}
		p := poly{shell, outer, inner}
		if r.Bool() {
			p = poly{shell, inner, outer}
		}
		return p
	}
	return poly{shell}
}

// touchChain: k holes touching each other and possibly the shell, so that the
// touch graph closes a cycle (interior disconnected) or just fails to.
func touchChain(r *run.Rng) poly {
	side := 8
	shell := ring{{0, 0}, {side, 0}, {side, side}, {0, side}, {0, 0}}
	p := poly{shell}
	// diamonds along a row touching at their left/right tips
	k := r.Range(2, 4)
	x := 0
	if r.Bool() {
		x = 1 // not touching the left side of the shell
	}
	for i := 0; i < k && x+2 <= side; i++ {
		p = append(p, ring{{x, 4}, {x + 1, 3}, {x + 2, 4}, {x + 1, 5}, {x, 4}})
		x += 2
		if r.Chance(1, 4) {
			x++ // break the chain
		}
	}
	if r.Bool() && x < side { // extend the last one to the right side
		last := p[len(p)-1]
		last[2] = ip{side, 4}
	}
	return p
}

// inscribed: a member whose vertices all lie on the boundary of another member's shell (so the two
// envelopes can coincide and the boundaries meet in points, or overlap along an edge), either nested in
// that member (invalid) or sitting in a hole of that shape in a bigger member (valid unless an edge is
// shared).
func inscribed(r *run.Rng) []poly {
	side := 8
	var outer ring
	if r.Bool() {
		a, b := r.Range(2, side), r.Range(2, side)
		outer = ring{{0, 0}, {a, 0}, {a, b}, {0, b}, {0, 0}}
	} else {
		outer = convexRing(r, side, r.Range(3, 6), nil)
	}
	// lattice points on the boundary of outer
	var bd []ip
	for i := 0; i+1 < len(outer); i++ {
		a, b := outer[i], outer[i+1]
		dx, dy := b.x-a.x, b.y-a.y
		g := gcd(abs(dx), abs(dy))
		for k := 0; k < g; k++ {
			bd = append(bd, ip{a.x + dx/g*k, a.y + dy/g*k})
		}
	}
	n := r.Range(3, 5)
	var pick []ip
	for i := 0; i < n; i++ {
		pick = append(pick, bd[r.Intn(len(bd))])
	}
	h := hull(pick)
	if len(h) < 3 {
		return []poly{{outer}}
	}
	inner := append(ring(h), h[0])
	inner = rot(inner, r.Intn(len(inner)-1), r.Bool())
	outer = rot(outer, r.Intn(len(outer)-1), r.Bool())
	var ps []poly
	if r.Bool() {
		ps = []poly{{outer}, {inner}}
	} else {
		big := ring{{-1, -1}, {side + 1, -1}, {side + 1, side + 1}, {-1, side + 1}, {-1, -1}}
		ps = []poly{{big, outer}, {inner}}
	}
	if r.Bool() {
		ps[0], ps[1] = ps[1], ps[0]
	}
	return ps
}

// fanTouch: three or more rings meeting at one point P (on the shell or inside), plus bridges between
// the rings that meet there, so that a cycle of the touch graph may pass through a point shared by
// several rings (interior disconnected) or just fail to.
func fanTouch(r *run.Rng) poly {
	side := 8
	shell := ring{{0, 0}, {side, 0}, {side, side}, {0, side}, {0, 0}}
	P := ip{4, 0}
	if r.Bool() {
		P = ip{4, 2}
	}
	y0 := P.y
	// petals with their apex at P
	petals := []ring{
		{P, {1, y0 + 3}, {3, y0 + 4}, P},
		{P, {5, y0 + 4}, {7, y0 + 3}, P},
		{P, {3, y0 + 5}, {5, y0 + 5}, P}, // middle petal (overlaps nothing: between the two others)
	}
	p := poly{shell}
	use := []int{0, 1}
	if r.Chance(1, 3) {
		use = []int{0, 1, 2}
		// with the middle petal present the outer ones must stay clear of it
		petals[0] = ring{P, {1, y0 + 2}, {2, y0 + 4}, P}
		petals[1] = ring{P, {6, y0 + 4}, {7, y0 + 2}, P}
	}
	for _, i := range use {
		p = append(p, petals[i])
	}
	// bridges between far vertices of two petals
	a, b := p[1], p[2]
	switch r.Intn(4) {
	case 0: // touches both: closes a cycle through P
		p = append(p, ring{a[2], b[1], {4, y0 + 6}, a[2]})
	case 1: // touches one only
		p = append(p, ring{a[2], {4, y0 + 6}, {3, y0 + 6}, a[2]})
	case 2: // near miss
		p = append(p, ring{{a[2].x, a[2].y + 1}, {b[1].x, b[1].y + 1}, {4, y0 + 6}, {a[2].x, a[2].y + 1}})
	}
	// random hole order and start vertices (the shell stays first)
	holes := p[1:]
	for i := len(holes) - 1; i > 0; i-- {
		j := r.Intn(i + 1)
		holes[i], holes[j] = holes[j], holes[i]
	}
	for i := range holes {
		holes[i] = rot(holes[i], r.Intn(len(holes[i])-1), r.Bool())
	}
	return p
}

// multiComponent: a touch graph with several connected components: optionally a cycle of three holes
// touching pairwise (interior disconnected), plus separate pairs of holes that touch each other only.
func multiComponent(r *run.Rng) poly {
	side := 30
	p := poly{ring{{0, 0}, {side, 0}, {side, side}, {0, side}, {0, 0}}}
	tri := func(x, y int) ring { return ring{{x, y}, {x + 4, y}, {x + 2, y + 3}, {x, y}} }
	if r.Chance(2, 3) { // the cycle: three triangles enclosing the triangle (8 4),(6 7),(10 7)
		p = append(p, tri(4, 4), tri(8, 4))
		if r.Chance(3, 4) {
			p = append(p, tri(6, 7))
		}
	}
	for j, n := 0, r.Range(0, 3); j < n; j++ { // pairs touching at one vertex
		y := 13 + 5*j
		p = append(p, tri(3, y), tri(7, y))
	}
	for j, n := 0, r.Range(0, 2); j < n; j++ { // chains of three (a path, no cycle)
		y := 4 + 6*j
		p = append(p, tri(16, y), tri(20, y), tri(24, y))
	}
	holes := p[1:]
	for i := len(holes) - 1; i > 0; i-- {
		j := r.Intn(i + 1)
		holes[i], holes[j] = holes[j], holes[i]
	}
	for i := range holes {
		holes[i] = rot(holes[i], r.Intn(len(holes[i])-1), r.Bool())
	}
	return p
}

// ---------- monitors ----------

type candidate struct {
	kind  string
	polys []poly // Polygon: one; MultiPolygon: several
	text  string
}

func (c candidate) build(reps []polyRep, perm []int, tx, ty int, flip bool, emptyAt ...int) geom.Geometry {
	ps := make([]geom.Polygon, len(c.polys))
	for i, pi := range perm {
		p := c.polys[pi]
		rp := reps[pi]
		q := make(poly, len(p))
		q[0] = rot(p[0], rp.rot[0], rp.rev[0])
		for h := 1; h < len(p); h++ {
			src := p[1+rp.holePerm[h-1]]
			q[h] = rot(src, rp.rot[1+rp.holePerm[h-1]], rp.rev[1+rp.holePerm[h-1]])
		}
		ps[i] = q.geom(tx, ty, flip)
	}
	if c.kind == "Polygon" {
		return ps[0].AsGeometry()
	}
	for _, at := range emptyAt { // empty members at the given positions
		if at > len(ps) {
			at = len(ps)
		}
		ps = append(ps[:at], append([]geom.Polygon{{}}, ps[at:]...)...)
	}
	return geom.NewMultiPolygon(ps).AsGeometry()
}

type polyRep struct {
	rot      []int
	rev      []bool
	holePerm []int
}

func identityRep(p poly) polyRep {
	rp := polyRep{rot: make([]int, len(p)), rev: make([]bool, len(p))}
	for h := 1; h < len(p); h++ {
		rp.holePerm = append(rp.holePerm, h-1)
	}
	return rp
}

func randomRep(r *run.Rng, p poly) polyRep {
	rp := polyRep{}
	for _, rg := range p {
		n := len(rg) - 1
		if n < 1 {
			n = 1
		}
		rp.rot = append(rp.rot, r.Intn(n))
		rp.rev = append(rp.rev, r.Bool())
	}
	rp.holePerm = r.Perm(len(p) - 1)
	return rp
}

func oracleOf(g geom.Geometry) exact.Verdict { return exact.ValidGeom(g) }

func nontrivial(polys []poly) bool {
	var rs []ring
	for _, p := range polys {
		rs = append(rs, p...)
	}
	bb := func(r ring) (int, int, int, int) {
		x0, y0, x1, y1 := r[0].x, r[0].y, r[0].x, r[0].y
		for _, p := range r {
			if p.x < x0 {
				x0 = p.x
			}
			if p.x > x1 {
				x1 = p.x
			}
			if p.y < y0 {
				y0 = p.y
			}
			if p.y > y1 {
				y1 = p.y
			}
		}
		return x0, y0, x1, y1
	}
	for i := range rs {
		for j := i + 1; j < len(rs); j++ {
			a0, b0, a1, b1 := bb(rs[i])
			c0, d0, c1, d1 := bb(rs[j])
			if a0 <= c1 && c0 <= a1 && b0 <= d1 && d0 <= b1 {
				return true
			}
		}
	}
	for _, r := range rs {
		seen := map[ip]bool{}
		for _, p := range r[:len(r)-1] {
			if seen[p] {
				return true
			}
			seen[p] = true
		}
	}
	return false
}

func judge(k *run.K, c candidate, nreps int, allStartsDirs bool) {
	base := make([]polyRep, len(c.polys))
	perm := make([]int, len(c.polys))
	for i, p := range c.polys {
		base[i] = identityRep(p)
		perm[i] = i
	}
	g0 := c.build(base, perm, 0, 0, false)
	k.In("candidate", g0.AsText())
	v := oracleOf(g0)
	if v.Inconsistent != "" {
		k.Skip("oracle-vs-validate")
		k.Count("oracle_inconsistent", 1)
		return
	}
	if nontrivial(c.polys) {
		k.Nontrivial(g0.AsText())
	}
	k.Obs("oracle", fmt.Sprintf("valid=%v rule=%s", v.OK, v.Rule))
	var verr error
	if k.Lib("nopanic", func() { verr = g0.Validate() }) {
		return
	}
	k.Obs("Validate", fmt.Sprint(verr))
	class := classify(c, v)
	k.CheckClass("oracle-vs-validate", class, (verr == nil) == v.OK, "Validate()=%v but the exact oracle says valid=%v (%s): %s", verr, v.OK, v.Rule, g0.AsText())
	k.Distinct("oracle_rules", ruleKind(v))
	// representations
	type repCase struct {
		reps        []polyRep
		perm        []int
		tx, ty      int
		flip        bool
		description string
		emptyAt     []int
	}
	var rcs []repCase
	if allStartsDirs && len(c.polys) == 1 {
		// every start vertex and direction of every hole (shell fixed)
		p := c.polys[0]
		var rec func(h int, cur polyRep)
		rec = func(h int, cur polyRep) {
			if h == len(p) {
				cp := polyRep{rot: append([]int(nil), cur.rot...), rev: append([]bool(nil), cur.rev...), holePerm: cur.holePerm}
				rcs = append(rcs, repCase{reps: []polyRep{cp}, perm: []int{0}, description: "all starts/directions"})
				return
			}
			for s := 0; s < len(p[h])-1; s++ {
				for _, rv := range []bool{false, true} {
					cur.rot[h], cur.rev[h] = s, rv
					rec(h+1, cur)
				}
			}
		}
		rec(1, identityRep(p))
	}
	for i := 0; i < nreps; i++ {
		rc := repCase{perm: k.Rng.Perm(len(c.polys)), description: "random"}
		for _, p := range c.polys {
			rc.reps = append(rc.reps, randomRep(k.Rng, p))
		}
		if k.Rng.Bool() {
			rc.tx, rc.ty = k.Rng.Range(-1000, 1000), k.Rng.Range(-1000, 1000)
		}
		rc.flip = k.Rng.Bool()
		if c.kind == "MultiPolygon" && k.Rng.Chance(1, 3) { // empty members are transparent
			for ne := k.Rng.Range(1, 2); ne > 0; ne-- {
				rc.emptyAt = append(rc.emptyAt, k.Rng.Intn(len(c.polys)+1))
			}
		}
		rcs = append(rcs, rc)
	}
	for _, rc := range rcs {
		g := c.build(rc.reps, rc.perm, rc.tx, rc.ty, rc.flip, rc.emptyAt...)
		var e error
		if k.Lib("nopanic", func() { e = g.Validate() }) {
			continue
		}
		if len(rc.emptyAt) > 0 {
			ve := oracleOf(g)
			k.Count("representations_with_empty_members", 1)
			if ve.Inconsistent != "" || ve.OK != v.OK {
				k.Count("empty_member_oracle_differs", 1)
				continue
			}
		}
		shared.ConcreteAgree(k, g, "concrete-entry", []shared.Call{{Method: "Validate"}, {Method: "IsSimple"}}, nil)
		k.CheckClass("repr-invariance", class, (e == nil) == (verr == nil), "verdict depends on the representation: %v for %s but %v for %s", verr, g0.AsText(), e, g.AsText())
		if (e == nil) != v.OK {
			k.CheckClass("oracle-vs-validate", class, false, "Validate()=%v but the exact oracle says valid=%v (%s): %s", e, v.OK, v.Rule, g.AsText())
		}
		k.Count("representations", 1)
	}
	decoderGate(k, g0, v.OK, class)
	collectionGate(k, g0, v.OK, class)
	if (verr == nil) == v.OK {
		payloadBlind(k, g0, verr, v.OK, class)
	}
}

// payloadBlind: the documented rules speak about the point set in the plane, so independent Z/M values at
// every control point (different at coinciding XY locations: closing points, repeated vertices, touching
// rings) must leave Validate, IsSimple, IsClosed and IsRing - and the decoders that gate on them - unchanged.
func payloadBlind(k *run.K, g geom.Geometry, verr error, valid bool, class string) {
	gz := shared.Payload(k.Rng, g, shared.PayloadCT(k.Rng))
	var ez error
	var s0, s1, d0, d1 bool
	if k.Lib("nopanic", func() { ez = gz.Validate(); s0, d0 = g.IsSimple(); s1, d1 = gz.IsSimple() }) {
		return
	}
	k.CheckClass("payload-blind", class, (ez == nil) == (verr == nil), "Validate()=%v for %s but %v with a Z/M payload: %s", verr, g.AsText(), ez, gz.AsText())
	if verr == nil && ez == nil {
		k.Check("payload-blind", s0 == s1 && d0 == d1, "IsSimple()=%v,%v for %s but %v,%v with a Z/M payload: %s", s0, d0, g.AsText(), s1, d1, gz.AsText())
	}
	if g.IsLineString() {
		l0, l1 := g.MustAsLineString(), gz.MustAsLineString()
		var c0, c1, r0, r1 bool
		if !k.Lib("nopanic", func() { c0, c1, r0, r1 = l0.IsClosed(), l1.IsClosed(), l0.IsRing(), l1.IsRing() }) {
			k.Check("payload-blind", c0 == c1 && r0 == r1, "IsClosed/IsRing = %v/%v for %s but %v/%v with a Z/M payload: %s", c0, r0, g.AsText(), c1, r1, gz.AsText())
		}
	}
	if k.Index%3 == 0 && (ez == nil) == valid {
		decoderGate(k, gz, valid, class)
	}
}

// collectionGate: a GeometryCollection is valid iff every member is, at any position and depth.
func collectionGate(k *run.K, g geom.Geometry, valid bool, class string) {
	pt := geom.NewPointXY(0, 0).AsGeometry()
	ls := geom.NewLineStringXY(0, 0, 1, 1).AsGeometry()
	gc := func(ms ...geom.Geometry) geom.Geometry { return geom.NewGeometryCollection(ms).AsGeometry() }
	ws := []geom.Geometry{gc(g), gc(pt, g), gc(g, pt), gc(pt, ls, g), gc(gc(pt, g)), gc(ls, gc(pt, gc(g)), pt)}
	w := ws[k.Rng.Intn(len(ws))]
	var e, ec error
	if k.Lib("nopanic", func() { e = w.Validate(); ec = w.MustAsGeometryCollection().Validate() }) {
		return
	}
	k.CheckClass("collection-gate", class, (e == nil) == valid && (ec == nil) == valid, "Validate()=%v / %v for a collection whose member has validity %v: %s", e, ec, valid, w.AsText())
	var de error
	wkb := w.AsBinary()
	if k.Lib("nopanic", func() { _, de = geom.UnmarshalWKB(wkb) }) {
		return
	}
	k.CheckClass("collection-gate", class, (de == nil) == valid, "UnmarshalWKB=%v for a collection whose member has validity %v: %s", de, valid, w.AsText())
}

func ruleKind(v exact.Verdict) string {
	if v.OK {
		return "valid"
	}
	r := v.Rule
	for i := 0; i < len(r); i++ {
		if r[i] >= '0' && r[i] <= '9' {
			r = r[:i] + "#" + r[i+1:]
		}
	}
	if len(r) > 60 {
		r = r[:60]
	}
	return r
}

// classify names the known-finding class of a candidate (exact predicate):
// a hole lies inside another hole and touches it at one of its own vertices.
func classify(c candidate, v exact.Verdict) string {
	if v.OK {
		return ""
	}
	for _, p := range c.polys {
		for i := 1; i < len(p); i++ {
			for j := 1; j < len(p); j++ {
				if i == j {
					continue
				}
				inner, outer := toPts(p[i]), toPts(p[j])
				touch, inside := false, false
				for _, q := range inner {
					switch exact.RingLoc(outer, q) {
					case 0:
						touch = true
					case -1:
						inside = true
					}
				}
				if touch && inside {
					return "hole-nested-in-hole-sharing-a-vertex"
				}
			}
		}
	}
	return ""
}

func toPts(r ring) []exact.Pt {
	out := make([]exact.Pt, len(r))
	for i, p := range r {
		out[i] = exact.PF(float64(p.x), float64(p.y))
	}
	return out
}

func allRingsClosed(g geom.Geometry) bool {
	ok := true
	var rec func(g geom.Geometry)
	rec = func(g geom.Geometry) {
		switch g.Type() {
		case geom.TypePolygon:
			for _, r := range g.MustAsPolygon().DumpRings() {
				if r.Coordinates().Length() < 4 || !r.IsClosed() {
					ok = false
				}
			}
		case geom.TypeMultiPolygon:
			mp := g.MustAsMultiPolygon()
			for i := 0; i < mp.NumPolygons(); i++ {
				rec(mp.PolygonN(i).AsGeometry())
			}
		case geom.TypeGeometryCollection:
			gc := g.MustAsGeometryCollection()
			for i := 0; i < gc.NumGeometries(); i++ {
				rec(gc.GeometryN(i))
			}
		}
	}
	rec(g)
	return ok
}

// decoderGate: the validating decoders accept the encoding iff the oracle says valid.
func decoderGate(k *run.K, g geom.Geometry, valid bool, class string) {
	type dec struct {
		name string
		fn   func() error
	}
	wkb, wkt := g.AsBinary(), g.AsText()
	ds := []dec{
		{"UnmarshalWKB", func() error { _, e := geom.UnmarshalWKB(wkb); return e }},
		{"UnmarshalWKT", func() error { _, e := geom.UnmarshalWKT(wkt); return e }},
		{"Geometry.Scan", func() error { var x geom.Geometry; return x.Scan(wkb) }},
	}
	if j, err := g.MarshalJSON(); err == nil {
		ds = append(ds, dec{"UnmarshalGeoJSON", func() error { _, e := geom.UnmarshalGeoJSON(j); return e }})
	}
	if allRingsClosed(g) {
		if tw, err := geom.MarshalTWKB(g, 0); err == nil {
			ds = append(ds, dec{"UnmarshalTWKB", func() error { _, e := geom.UnmarshalTWKB(tw); return e }})
		}
	}
	for _, d := range ds {
		var e error
		if k.Lib("nopanic", func() { e = d.fn() }) {
			continue
		}
		k.CheckClass("decoder-gate", class, (e == nil) == valid, "%s returned %v for a geometry whose validity is %v: %s", d.name, e, valid, g.AsText())
	}
}

// ---------- lines ----------

func lineCase(k *run.K) {
	side := k.Rng.Range(2, 5)
	n := k.Rng.Range(1, 7)
	var ps []ip
	for i := 0; i < n; i++ {
		ps = append(ps, rp(k.Rng, side))
	}
	switch k.Rng.Intn(6) {
	case 0:
		ps = append(ps, ps[0])
	case 1:
		j := k.Rng.Intn(len(ps))
		ps = append(ps[:j+1], ps[j:]...) // repeated consecutive vertex
	case 2:
		ps = append(ps, ps[k.Rng.Intn(len(ps))])
	}
	mk := func(ps []ip, rev bool, tx, ty int, flip bool) geom.LineString {
		q := append(ring(nil), ps...)
		if rev {
			for i, j := 0, len(q)-1; i < j; i, j = i+1, j-1 {
				q[i], q[j] = q[j], q[i]
			}
		}
		return geom.NewLineString(q.seq(tx, ty, flip))
	}
	ls := mk(ps, false, 0, 0, false)
	g := ls.AsGeometry()
	k.In("candidate", g.AsText())
	pts := toPts(ps)
	v := oracleOf(g)
	if len(ps) >= 3 {
		k.Nontrivial(g.AsText())
	}
	var verr error
	var simple, closed, isRing bool
	if k.Lib("nopanic", func() { verr = g.Validate(); simple = ls.IsSimple(); closed = ls.IsClosed(); isRing = ls.IsRing() }) {
		return
	}
	k.Check("oracle-vs-validate", (verr == nil) == v.OK, "LineString Validate()=%v, oracle valid=%v (%s): %s", verr, v.OK, v.Rule, g.AsText())
	wantClosed := pts[0].Eq(pts[len(pts)-1])
	k.Check("ring-closed", closed == wantClosed, "IsClosed()=%v for %s", closed, g.AsText())
	if v.OK {
		wantSimple := exact.SimpleCurve(pts)
		k.Check("simple", simple == wantSimple, "IsSimple()=%v, definitional=%v for %s", simple, wantSimple, g.AsText())
		k.Check("ring-closed", isRing == (wantSimple && wantClosed), "IsRing()=%v, want %v for %s", isRing, wantSimple && wantClosed, g.AsText())
		// representation: reversal, translation, reflection; rotation for closed curves
		for i := 0; i < 6; i++ {
			q := ps
			if wantClosed && len(ps) > 2 && k.Rng.Bool() {
				q = rot(ring(ps), k.Rng.Intn(len(ps)-1), false)
			}
			l2 := mk(q, k.Rng.Bool(), k.Rng.Range(-50, 50), k.Rng.Range(-50, 50), k.Rng.Bool())
			var s2 bool
			var e2 error
			if k.Lib("nopanic", func() { s2 = l2.IsSimple(); e2 = l2.Validate() }) {
				continue
			}
			k.Check("repr-invariance", s2 == simple && (e2 == nil) == (verr == nil), "IsSimple/Validate depend on the representation: %v/%v for %s, %v/%v for %s", simple, verr, g.AsText(), s2, e2, l2.AsText())
		}
	}
	decoderGate(k, g, v.OK, "")
	if (verr == nil) == v.OK {
		payloadBlind(k, g, verr, v.OK, "")
	}
}

func multiLineCase(k *run.K) {
	side := k.Rng.Range(2, 4)
	m := k.Rng.Range(1, 3)
	var lines [][]ip
	for i := 0; i < m; i++ {
		n := k.Rng.Range(2, 4)
		var ps []ip
		for j := 0; j < n; j++ {
			ps = append(ps, rp(k.Rng, side))
		}
		if i > 0 && k.Rng.Bool() { // share an endpoint with a previous member
			prev := lines[k.Rng.Intn(len(lines))]
			ps[0] = prev[[]int{0, len(prev) - 1}[k.Rng.Intn(2)]]
		}
		if k.Rng.Chance(1, 6) {
			ps = append(ps, ps[0])
		}
		lines = append(lines, ps)
	}
	var ls []geom.LineString
	var ptsl [][]exact.Pt
	for _, ps := range lines {
		ls = append(ls, geom.NewLineString(ring(ps).seq(0, 0, false)))
		ptsl = append(ptsl, toPts(ps))
	}
	ml := geom.NewMultiLineString(ls)
	g := ml.AsGeometry()
	k.In("candidate", g.AsText())
	v := oracleOf(g)
	k.Nontrivial(g.AsText())
	var verr error
	var simple bool
	if k.Lib("nopanic", func() { verr = g.Validate(); simple = ml.IsSimple() }) {
		return
	}
	k.Check("oracle-vs-validate", (verr == nil) == v.OK, "MultiLineString Validate()=%v, oracle valid=%v: %s", verr, v.OK, g.AsText())
	if v.OK {
		want := exact.SimpleMultiLine(ptsl)
		k.Check("simple", simple == want, "MultiLineString.IsSimple()=%v, definitional=%v for %s", simple, want, g.AsText())
		// member permutation and reversal
		perm := k.Rng.Perm(len(ls))
		var ls2 []geom.LineString
		for _, j := range perm {
			l := ls[j]
			if k.Rng.Bool() {
				l = l.Reverse()
			}
			ls2 = append(ls2, l)
			if k.Rng.Chance(1, 4) { // empty members are transparent
				ls2 = append(ls2, geom.LineString{})
			}
		}
		if k.Rng.Chance(1, 4) {
			ls2 = append([]geom.LineString{{}}, ls2...)
		}
		m2 := geom.NewMultiLineString(ls2)
		var s2 bool
		if !k.Lib("nopanic", func() { s2 = m2.IsSimple() }) {
			k.Check("repr-invariance", s2 == simple, "MultiLineString.IsSimple depends on member order/direction: %v for %s, %v for %s", simple, g.AsText(), s2, m2.AsText())
		}
	}
	decoderGate(k, g, v.OK, "")
	if (verr == nil) == v.OK {
		payloadBlind(k, g, verr, v.OK, "")
	}
}

// multiPointCase: MultiPoints with repeated and empty members; simple iff no two non-empty members coincide.
func multiPointCase(k *run.K) {
	side := k.Rng.Range(1, 3)
	n := k.Rng.Range(0, 6)
	var pts []geom.Point
	seen := map[ip]bool{}
	want := true
	for i := 0; i < n; i++ {
		if k.Rng.Chance(1, 4) {
			pts = append(pts, geom.NewEmptyPoint(geom.DimXY))
			continue
		}
		q := rp(k.Rng, side)
		if k.Rng.Chance(1, 6) {
			q = ip{0, 0} // the XY an empty Point's zero payload carries
		}
		if seen[q] {
			want = false
		}
		seen[q] = true
		pts = append(pts, geom.NewPointXY(float64(q.x), float64(q.y)))
	}
	mp := geom.NewMultiPoint(pts)
	g := mp.AsGeometry()
	k.In("candidate", g.AsText())
	k.Nontrivial(g.AsText())
	var verr error
	var simple, gs, def bool
	if k.Lib("nopanic", func() { verr = g.Validate(); simple = mp.IsSimple(); gs, def = g.IsSimple() }) {
		return
	}
	k.Check("oracle-vs-validate", verr == nil, "MultiPoint Validate()=%v for finite points: %s", verr, g.AsText())
	k.Check("simple", simple == want && def && gs == want, "MultiPoint.IsSimple()=%v Geometry.IsSimple()=%v,%v, definitional=%v for %s", simple, gs, def, want, g.AsText())
	perm := k.Rng.Perm(len(pts))
	var p2 []geom.Point
	for _, j := range perm {
		p2 = append(p2, pts[j])
	}
	m2 := geom.NewMultiPoint(p2)
	var s2 bool
	if !k.Lib("nopanic", func() { s2 = m2.IsSimple() }) {
		k.Check("repr-invariance", s2 == simple, "MultiPoint.IsSimple depends on member order: %v for %s, %v for %s", simple, g.AsText(), s2, m2.AsText())
	}
	decoderGate(k, g, true, "")
}

// nonfinite: NaN / +-Inf planted at every ordinate position.
func nonfiniteCase(k *run.K) {
	bad := []float64{math.NaN(), math.Inf(1), math.Inf(-1)}[k.Rng.Intn(3)]
	typ := k.Rng.Intn(4)
	ct := []geom.CoordinatesType{geom.DimXY, geom.DimXYZ, geom.DimXYM, geom.DimXYZM}[k.Rng.Intn(4)]
	d := ct.Dimension()
	base := [][]float64{{0, 0}, {4, 0}, {4, 4}, {0, 4}, {0, 0}}
	n := []int{1, 3, 5, 2}[typ]
	fs := make([]float64, 0, n*d)
	for i := 0; i < n; i++ {
		fs = append(fs, base[i][0], base[i][1])
		for j := 2; j < d; j++ {
			fs = append(fs, float64(10*i+j))
		}
	}
	pos := k.Rng.Intn(len(fs))
	if typ == 2 && (pos/d == 0 || pos/d == n-1) {
		// keep the ring closed: plant in both end points
		fs[pos%d] = bad
		fs[(n-1)*d+pos%d] = bad
	} else {
		fs[pos] = bad
	}
	inXY := pos%d < 2
	seq := geom.NewSequence(fs, ct)
	var g geom.Geometry
	switch typ {
	case 0:
		g = geom.NewPoint(seq.Get(0)).AsGeometry()
	case 1:
		g = geom.NewLineString(seq).AsGeometry()
	case 2:
		g = geom.NewPolygon([]geom.LineString{geom.NewLineString(seq)}).AsGeometry()
	default:
		g = geom.NewMultiPoint([]geom.Point{geom.NewPoint(seq.Get(0)), geom.NewPoint(seq.Get(1))}).AsGeometry()
	}
	if k.Rng.Bool() {
		g = geom.NewGeometryCollection([]geom.Geometry{g}).AsGeometry()
	}
	k.In("type", g.Type().String())
	k.In("position", fmt.Sprintf("ordinate %d of %d (%v) in %v", pos, len(fs), bad, ct))
	k.Nontrivial(fmt.Sprint(g.Type(), ct, pos, bad, typ))
	var verr error
	if k.Lib("nopanic", func() { verr = g.Validate() }) {
		return
	}
	if inXY {
		k.Check("nonfinite", verr != nil, "a geometry with %v in X/Y passes Validate (%s ordinate %d)", bad, g.Type(), pos)
	} else {
		k.Check("nonfinite", verr == nil, "%v in Z/M makes Validate fail: %v", bad, verr)
	}
	// the binary decoders gate on the same rule (text formats cannot spell a non-finite ordinate)
	var wkb []byte
	if k.Lib("nopanic", func() { wkb = g.AsBinary() }) {
		return
	}
	for _, name := range []string{"UnmarshalWKB", "Geometry.Scan"} {
		var e error
		if k.Lib("nopanic", func() {
			if name == "UnmarshalWKB" {
				_, e = geom.UnmarshalWKB(wkb)
			} else {
				var x geom.Geometry
				e = x.Scan(wkb)
			}
		}) {
			continue
		}
		k.Check("nonfinite", (e != nil) == inXY, "%s returned %v for a %s with %v at ordinate %d (in X/Y: %v)", name, e, g.Type(), bad, pos, inXY)
	}
}

// ---------- exhaustive sub-spaces ----------

func exhaustiveRings(c *run.Ctx) {
	var grid []ip
	for x := 0; x < 3; x++ {
		for y := 0; y < 3; y++ {
			grid = append(grid, ip{x, y})
		}
	}
	idx := 0
	for _, n := range []int{3, 4} {
		total := 1
		for i := 0; i < n; i++ {
			total *= 9
		}
		const block = 243
		for b := 0; b < total; b += block {
			b, n := b, n
			c.Case(fmt.Sprintf("exh-ring:%d", n), idx, func(k *run.K) {
				k.In("block", fmt.Sprintf("%d-vertex rings %d..%d of the 3x3 grid", n, b, b+block-1))
				k.Nontrivial(fmt.Sprint("ring", n, b))
				for code := b; code < b+block && code < total; code++ {
					var r ring
					cc := code
					for i := 0; i < n; i++ {
						r = append(r, grid[cc%9])
						cc /= 9
					}
					r = append(r, r[0])
					g := poly{r}.geom(0, 0, false).AsGeometry()
					v := oracleOf(g)
					if v.Inconsistent != "" {
						k.Skip("oracle-vs-validate")
						continue
					}
					var e error
					if k.Lib("nopanic", func() { e = g.Validate() }) {
						continue
					}
					k.Check("oracle-vs-validate", (e == nil) == v.OK, "Validate()=%v, oracle valid=%v (%s): %s", e, v.OK, v.Rule, g.AsText())
					ls := geom.NewLineString(r.seq(0, 0, false))
					var simple bool
					if !k.Lib("nopanic", func() { simple = ls.IsSimple() }) && ls.Validate() == nil {
						k.Check("simple", simple == exact.SimpleCurve(toPts(r)), "IsSimple()=%v for %s", simple, ls.AsText())
					}
					k.Count("exhaustive_rings", 1)
				}
			})
			idx++
		}
	}
}

func triangles(lo, hi int) []ring {
	var pts []ip
	for x := lo; x <= hi; x++ {
		for y := lo; y <= hi; y++ {
			pts = append(pts, ip{x, y})
		}
	}
	var out []ring
	for i := 0; i < len(pts); i++ {
		for j := i + 1; j < len(pts); j++ {
			for l := j + 1; l < len(pts); l++ {
				if cross(pts[i], pts[j], pts[l]) != 0 {
					out = append(out, ring{pts[i], pts[j], pts[l], pts[i]})
				}
			}
		}
	}
	return out
}

func runAll(c *run.Ctx) {
	for i := 0; i < c.N(30000, 300000); i++ {
		c.Case("poly", i, func(k *run.K) {
			judge(k, candidate{kind: "Polygon", polys: []poly{randPoly(k.Rng)}}, c.N(12, 24), false)
		})
	}
	for i := 0; i < c.N(15000, 150000); i++ {
		c.Case("mpoly", i, func(k *run.K) {
			n := k.Rng.Range(1, 3)
			var ps []poly
			for j := 0; j < n; j++ {
				p := randPoly(k.Rng)
				if len(p) > 2 {
					p = p[:2]
				}
				ps = append(ps, p)
			}
			judge(k, candidate{kind: "MultiPolygon", polys: ps}, c.N(10, 24), false)
		})
	}
	for i := 0; i < c.N(8000, 80000); i++ {
		c.Case("nested-holes", i, func(k *run.K) {
			judge(k, candidate{kind: "Polygon", polys: []poly{nestedPair(k.Rng)}}, c.N(8, 16), true)
		})
	}
	for i := 0; i < c.N(4000, 40000); i++ {
		c.Case("inscribed", i, func(k *run.K) {
			judge(k, candidate{kind: "MultiPolygon", polys: inscribed(k.Rng)}, c.N(8, 16), false)
		})
	}
	for i := 0; i < c.N(1500, 20000); i++ {
		c.Case("multi-component", i, func(k *run.K) {
			judge(k, candidate{kind: "Polygon", polys: []poly{multiComponent(k.Rng)}}, c.N(4, 10), false)
		})
	}
	for i := 0; i < c.N(3000, 30000); i++ {
		c.Case("fan-touch", i, func(k *run.K) {
			judge(k, candidate{kind: "Polygon", polys: []poly{fanTouch(k.Rng)}}, c.N(8, 16), false)
		})
	}
	for i := 0; i < c.N(3000, 30000); i++ {
		c.Case("touch-chain", i, func(k *run.K) {
			judge(k, candidate{kind: "Polygon", polys: []poly{touchChain(k.Rng)}}, c.N(8, 16), false)
		})
	}
	for i := 0; i < c.N(20000, 200000); i++ {
		c.Case("line", i, lineCase)
	}
	for i := 0; i < c.N(15000, 150000); i++ {
		c.Case("mline", i, multiLineCase)
	}
	for i := 0; i < c.N(4000, 40000); i++ {
		c.Case("mpoint", i, multiPointCase)
	}
	for i := 0; i < c.N(1500, 20000); i++ {
		c.Case("nonfinite", i, nonfiniteCase)
	}
	exhaustiveRings(c)
	// pairs of lattice triangles of the 4x4 grid: shell+hole and two members
	tris := triangles(0, 3)
	stride := c.N(23, 1)
	idx := 0
	for a := 0; a < len(tris); a++ {
		a := a
		c.Case("exh-pair", idx, func(k *run.K) {
			k.In("first_triangle", fmt.Sprint(tris[a]))
			k.Nontrivial(fmt.Sprint("pair", a))
			for b := (a * 7) % stride; b < len(tris); b += stride {
				for _, kind := range []string{"Polygon", "MultiPolygon"} {
					var cand candidate
					if kind == "Polygon" {
						cand = candidate{kind: kind, polys: []poly{{tris[a], tris[b]}}}
					} else {
						cand = candidate{kind: kind, polys: []poly{{tris[a]}, {tris[b]}}}
					}
					quickJudge(k, cand)
				}
			}
		})
		idx++
	}
	// pairs of triangular holes (4x4 sub-grid) inside a fixed 7x7 shell, all starts and directions
	holes := triangles(2, 5)
	shell := ring{{0, 0}, {7, 0}, {7, 7}, {0, 7}, {0, 0}}
	hstride := c.N(41, 1)
	for a := 0; a < len(holes); a++ {
		a := a
		c.Case("exh-holes", a, func(k *run.K) {
			k.In("first_hole", fmt.Sprint(holes[a]))
			k.Nontrivial(fmt.Sprint("holes", a))
			for b := a + 1 + (a*13)%hstride; b < len(holes); b += hstride {
				p := poly{shell, holes[a], holes[b]}
				g0 := p.geom(0, 0, false).AsGeometry()
				v := oracleOf(g0)
				if v.Inconsistent != "" {
					continue
				}
				cand := candidate{kind: "Polygon", polys: []poly{p}}
				class := classify(cand, v)
				for s1 := 0; s1 < 3; s1++ {
					for s2 := 0; s2 < 3; s2++ {
						for d := 0; d < 4; d++ {
							q := poly{shell, rot(holes[a], s1, d&1 == 1), rot(holes[b], s2, d&2 == 2)}
							g := q.geom(0, 0, false).AsGeometry()
							var e error
							if k.Lib("nopanic", func() { e = g.Validate() }) {
								continue
							}
							k.CheckClass("oracle-vs-validate", class, (e == nil) == v.OK, "Validate()=%v but the exact oracle says valid=%v (%s): %s", e, v.OK, v.Rule, g.AsText())
							k.Count("exhaustive_hole_pair_representations", 1)
						}
					}
				}
			}
		})
	}
}

// quickJudge: verdict vs oracle on the base representation plus 4 random ones.
func quickJudge(k *run.K, c candidate) {
	base := make([]polyRep, len(c.polys))
	perm := make([]int, len(c.polys))
	for i, p := range c.polys {
		base[i] = identityRep(p)
		perm[i] = i
	}
	g0 := c.build(base, perm, 0, 0, false)
	v := oracleOf(g0)
	if v.Inconsistent != "" {
		k.Skip("oracle-vs-validate")
		return
	}
	class := classify(c, v)
	for i := 0; i < 5; i++ {
		g := g0
		if i > 0 {
			var reps []polyRep
			for _, p := range c.polys {
				reps = append(reps, randomRep(k.Rng, p))
			}
			g = c.build(reps, k.Rng.Perm(len(c.polys)), 0, 0, k.Rng.Bool())
		}
		var e error
		if k.Lib("nopanic", func() { e = g.Validate() }) {
			continue
		}
		k.CheckClass("oracle-vs-validate", class, (e == nil) == v.OK, "Validate()=%v but the exact oracle says valid=%v (%s): %s", e, v.OK, v.Rule, g.AsText())
		k.Count("exhaustive_pair_representations", 1)
	}
}
