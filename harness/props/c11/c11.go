// Package c11 monitors the R-tree: searches against a linear scan, callback
// protocol at every stop position, and the structural hook after BulkLoad.
package c11

import (
	"errors"
	"fmt"
	"math"
	"sort"
	"strings"

	"github.com/peterstace/simplefeatures/rtree"

	"verif/run"
)

func init() {
	run.Register(&run.Property{
		ID:    "C11",
		Title: "R-tree searches are exact, ordered, and stop when told to",
		Rule: "[added in rounds 9-11: huge layout (magnitudes 1e150..1e300) and arithmetic-independent prio-complete/nearest on the inexact layouts] cases = (layout, size n, PRNG stream): n items with quarter-integer coordinates |c|<=2^12 bulk-loaded; sizes 0..40 exhaustively x 8 layouts, then sampled sizes at fan-out boundaries up to 5000; " +
			"each case runs range queries (own boxes, degenerate, enclosing, disjoint, edge/corner touching), priority searches and callback-protocol injections (continue/Stop/wrapped Stop/error at position k) against a linear scan. " +
			"non-trivial = tree with depth >= 2 (n > 4); distinct by (layout, n, item multiset hash)",
		Assumptions: []string{
			"distance-order monitors run on layouts whose box coordinates are multiples of 1/4 with |c| <= 4096 (squared distances exact in float64); the decimal and float layouts (ordinates k/10, random mantissas) are judged on range/protocol/count/extent only, with closed-interval comparison of the stored float64 values as the definition of overlap",
			"linear scan over the loaded items is the reference",
		},
		MinNontrivial:    50,
		RequiredMonitors: []string{"range-exact", "prio-order", "prio-complete", "nearest", "stop", "wrapped-stop", "error-propagation", "count", "extent", "structure-hook"},
		Run:              runAll,
	})
}

var layouts = []string{"uniform", "clustered", "collinear", "same-centre", "duplicates", "points", "nested", "overlap", "decimal", "float", "huge"}

func q(r *run.Rng, lo, hi int) float64 { // quarter-integer in [lo,hi]
	return float64(r.Range(lo*4, hi*4)) / 4
}

func genItems(r *run.Rng, layout string, n int) []rtree.BulkItem {
	items := make([]rtree.BulkItem, n)
	mk := func(x0, y0, w, h float64) rtree.Box { return rtree.Box{MinX: x0, MinY: y0, MaxX: x0 + w, MaxY: y0 + h} }
	var centres [][2]float64
	for i := 0; i < 1+n/10; i++ {
		centres = append(centres, [2]float64{q(r, -1000, 1000), q(r, -1000, 1000)})
	}
	for i := range items {
		var b rtree.Box
		switch layout {
		case "uniform":
			b = mk(q(r, -100, 100), q(r, -100, 100), q(r, 0, 10), q(r, 0, 10))
		case "clustered":
			c := centres[r.Intn(len(centres))]
			b = mk(c[0]+q(r, -3, 3), c[1]+q(r, -3, 3), q(r, 0, 2), q(r, 0, 2))
		case "collinear":
			x := q(r, -500, 500)
			if r.Bool() {
				b = mk(x, 7, q(r, 0, 3), 0)
			} else {
				b = mk(x, 7, 0, 0)
			}
		case "same-centre":
			w, h := q(r, 0, 20), q(r, 0, 20)
			b = rtree.Box{MinX: 5 - w, MaxX: 5 + w, MinY: -3 - h, MaxY: -3 + h}
		case "duplicates":
			k := r.Intn(3)
			b = mk(float64(k), float64(k*2), 1, 1)
		case "points":
			x, y := q(r, -20, 20), q(r, -20, 20)
			b = mk(x, y, 0, 0)
		case "nested":
			d := float64(r.Intn(n+1)) / 4
			b = rtree.Box{MinX: -d, MinY: -d, MaxX: d, MaxY: d}
		case "overlap":
			b = mk(q(r, -5, 5), q(r, -5, 5), q(r, 20, 40), q(r, 20, 40))
		case "decimal": // non-dyadic ordinates k/10: sums and differences round
			x0, y0 := float64(r.Range(-30, 30))/10, float64(r.Range(-30, 30))/10
			b = rtree.Box{MinX: x0, MinY: y0, MaxX: float64(r.Range(0, 12))/10 + x0, MaxY: float64(r.Range(0, 12))/10 + y0}
			if r.Bool() {
				b.MaxX, b.MaxY = float64(r.Range(int(x0*10), 40))/10, float64(r.Range(int(y0*10), 40))/10
				if b.MaxX < b.MinX {
					b.MaxX = b.MinX
				}
				if b.MaxY < b.MinY {
					b.MaxY = b.MinY
				}
			}
		case "huge": // finite boxes whose squared distances overflow float64 (magnitudes 1e150..1e300, both signs)
			mag := func() float64 {
				return (r.Float64()*2 - 1) * math.Pow(10, float64(r.Range(150, 300)))
			}
			x0, y0 := mag(), mag()
			b = rtree.Box{MinX: x0, MinY: y0, MaxX: x0 + math.Abs(mag())/2, MaxY: y0 + math.Abs(mag())/2}
			if r.Chance(1, 4) {
				b.MaxX, b.MaxY = b.MinX, b.MinY
			}
		case "float": // arbitrary 53-bit mantissas
			x0, y0 := r.Float64()*200-100, r.Float64()*200-100
			b = rtree.Box{MinX: x0, MinY: y0, MaxX: x0 + r.Float64()*20, MaxY: y0 + r.Float64()*20}
		}
		items[i] = rtree.BulkItem{Box: b, RecordID: i}
	}
	// the zero Box is a legitimate item (a point at the origin): plant it, and boxes with a
	// corner at the origin, at the front / at random positions of the input order
	if n > 0 && layout != "float" && r.Chance(1, 3) {
		zero := rtree.Box{}
		switch r.Intn(3) {
		case 0:
			items[0].Box = zero
		case 1:
			items[r.Intn(n)].Box = zero
			items[r.Intn(n)].Box = zero
		default:
			items[r.Intn(n)].Box = rtree.Box{MinX: 0, MinY: 0, MaxX: float64(r.Intn(3)), MaxY: float64(r.Intn(3))}
			items[0].Box = zero
		}
	}
	return items
}

func overlapRef(a, b rtree.Box) bool {
	return !(a.MaxX < b.MinX || b.MaxX < a.MinX || a.MaxY < b.MinY || b.MaxY < a.MinY)
}

func distRef(a, b rtree.Box) float64 {
	dx, dy := 0.0, 0.0
	if a.MinX > b.MaxX {
		dx = a.MinX - b.MaxX
	} else if b.MinX > a.MaxX {
		dx = b.MinX - a.MaxX
	}
	if a.MinY > b.MaxY {
		dy = a.MinY - b.MaxY
	} else if b.MinY > a.MaxY {
		dy = b.MinY - a.MaxY
	}
	return dx*dx + dy*dy
}

func queries(r *run.Rng, items []rtree.BulkItem, m int, exact bool) []rtree.Box {
	var qs []rtree.Box
	if !exact {
		// queries assembled from ordinates of the items themselves, so that edge
		// and corner contact is exact although the ordinates are not dyadic
		for i := 0; i < 2*m && len(items) > 0; i++ {
			a, b := items[r.Intn(len(items))].Box, items[r.Intn(len(items))].Box
			var qb rtree.Box
			switch r.Intn(5) {
			case 0:
				qb = a
			case 1: // shares a's right edge
				qb = rtree.Box{MinX: a.MaxX, MinY: a.MinY, MaxX: maxf(a.MaxX, b.MaxX), MaxY: a.MaxY}
			case 2: // shares a's top-right corner
				qb = rtree.Box{MinX: a.MaxX, MinY: a.MaxY, MaxX: maxf(a.MaxX, b.MaxX), MaxY: maxf(a.MaxY, b.MaxY)}
			case 3: // shares a's lower-left corner
				qb = rtree.Box{MinX: minf(a.MinX, b.MinX), MinY: minf(a.MinY, b.MinY), MaxX: a.MinX, MaxY: a.MinY}
			case 4: // spans between two items
				qb = rtree.Box{MinX: minf(a.MaxX, b.MinX), MinY: minf(a.MaxY, b.MinY), MaxX: maxf(a.MaxX, b.MinX), MaxY: maxf(a.MaxY, b.MinY)}
			}
			qs = append(qs, qb)
		}
	}
	qs = append(qs, rtree.Box{MinX: -5000, MinY: -5000, MaxX: 5000, MaxY: 5000}) // enclosing
	qs = append(qs, rtree.Box{MinX: 4500, MinY: 4500, MaxX: 4600, MaxY: 4600})   // disjoint
	qs = append(qs, rtree.Box{MinX: 0, MinY: 0, MaxX: 0, MaxY: 0})               // degenerate
	qs = append(qs, rtree.Box{MinX: -3, MinY: -3, MaxX: 0, MaxY: 0})             // corner-touching the origin
	qs = append(qs, rtree.Box{MinX: -0.25, MinY: -0.25, MaxX: 0.25, MaxY: 0.25}) // around the origin
	for i := 0; i < m && len(items) > 0; i++ {
		it := items[r.Intn(len(items))].Box
		switch r.Intn(7) {
		case 0:
			qs = append(qs, it)
		case 1: // edge touching on the right
			qs = append(qs, rtree.Box{MinX: it.MaxX, MinY: it.MinY, MaxX: it.MaxX + q(r, 0, 5), MaxY: it.MaxY})
		case 2: // corner touching
			qs = append(qs, rtree.Box{MinX: it.MaxX, MinY: it.MaxY, MaxX: it.MaxX + q(r, 0, 3), MaxY: it.MaxY + q(r, 0, 3)})
		case 3: // corner touching lower-left
			qs = append(qs, rtree.Box{MinX: it.MinX - q(r, 0, 3), MinY: it.MinY - q(r, 0, 3), MaxX: it.MinX, MaxY: it.MinY})
		case 4: // just off by a quarter
			qs = append(qs, rtree.Box{MinX: it.MaxX + 0.25, MinY: it.MinY, MaxX: it.MaxX + 2, MaxY: it.MaxY})
		case 5: // degenerate point on a corner
			qs = append(qs, rtree.Box{MinX: it.MinX, MinY: it.MaxY, MaxX: it.MinX, MaxY: it.MaxY})
		case 6: // random
			x, y := q(r, -120, 120), q(r, -120, 120)
			qs = append(qs, rtree.Box{MinX: x, MinY: y, MaxX: x + q(r, 0, 60), MaxY: y + q(r, 0, 60)})
		}
	}
	return qs
}

var errOther = errors.New("callback failure")

func oneCase(k *run.K, layout string, n int, nq int, allK bool) {
	r := k.Rng
	items := genItems(r, layout, n)
	ref := append([]rtree.BulkItem(nil), items...) // BulkLoad permutes its argument
	k.In("layout", layout)
	k.In("n", fmt.Sprint(n))
	if k.Sampled() {
		var sb strings.Builder
		for i, it := range ref {
			if i >= 12 {
				sb.WriteString("…")
				break
			}
			fmt.Fprintf(&sb, "%d:[%g,%g,%g,%g] ", it.RecordID, it.Box.MinX, it.Box.MinY, it.Box.MaxX, it.Box.MaxY)
		}
		k.In("items", sb.String())
	}
	if n > 4 {
		var sb strings.Builder
		for _, it := range ref {
			fmt.Fprintf(&sb, "%g,%g,%g,%g;", it.Box.MinX, it.Box.MinY, it.Box.MaxX, it.Box.MaxY)
		}
		k.Nontrivial(layout + sb.String())
	}
	t := rtree.BulkLoad(items)

	// structure hook at the quiescent point after loading
	viol := t.VerifCheck()
	k.Check("structure-hook", len(viol) == 0, "VerifCheck after BulkLoad(n=%d,%s): %v", n, layout, viol)
	// the argument must still be a permutation of what was passed
	{
		seen := map[int]rtree.Box{}
		for _, it := range items {
			seen[it.RecordID] = it.Box
		}
		ok := len(seen) == n
		for _, it := range ref {
			if b, f := seen[it.RecordID]; !f || b != it.Box {
				ok = false
			}
		}
		k.Check("structure-hook", ok, "BulkLoad did not leave a permutation of its items")
	}
	k.Check("count", t.Count() == n, "Count()=%d want %d", t.Count(), n)
	ext, okExt := t.Extent()
	if n == 0 {
		k.Check("extent", !okExt, "Extent of empty tree reported ok")
	} else {
		want := ref[0].Box
		for _, it := range ref[1:] {
			b := it.Box
			if b.MinX < want.MinX {
				want.MinX = b.MinX
			}
			if b.MinY < want.MinY {
				want.MinY = b.MinY
			}
			if b.MaxX > want.MaxX {
				want.MaxX = b.MaxX
			}
			if b.MaxY > want.MaxY {
				want.MaxY = b.MaxY
			}
		}
		k.Check("extent", okExt && ext == want, "Extent()=%v,%v want %v", ext, okExt, want)
	}

	qs := queries(r, ref, nq, exactLayout(layout))
	for qi, qb := range qs {
		// --- range search, complete
		var got []int
		err := t.RangeSearch(qb, func(id int) error { got = append(got, id); return nil })
		var want []int
		for _, it := range ref {
			if overlapRef(it.Box, qb) {
				want = append(want, it.RecordID)
			}
		}
		visit := append([]int(nil), got...)
		sort.Ints(got)
		sort.Ints(want)
		k.Check("range-exact", err == nil && equalInts(got, want), "RangeSearch(%v) n=%d layout=%s: got %d ids %v want %d ids %v err=%v", qb, n, layout, len(got), clip(got), len(want), clip(want), err)
		k.Count("range_searches", 1)
		k.Count("range_hits", int64(len(want)))

		// --- callback protocol on RangeSearch at positions k
		if len(visit) > 0 {
			for _, pos := range positions(r, len(visit), allK) {
				protocol(k, "range", pos, len(visit), func(cb func(int) error) error { return t.RangeSearch(qb, cb) })
			}
		}

		// --- priority search, layouts whose distances are not exact in float64 (or overflow): what does not
		// depend on the arithmetic - every record exactly once, and Nearest finds a record iff there is one
		if !exactLayout(layout) && (qi < 4 || qi%3 == 0) {
			var order []int
			err := t.PrioritySearch(qb, func(id int) error { order = append(order, id); return nil })
			s := append([]int(nil), order...)
			sort.Ints(s)
			complete := err == nil && len(s) == n
			for i := range s {
				if s[i] != i {
					complete = false
				}
			}
			k.Check("prio-complete", complete, "PrioritySearch(%v) n=%d layout=%s visited %d records (each must be visited exactly once) err=%v", qb, n, layout, len(order), err)
			id, found := t.Nearest(qb)
			k.Check("nearest", found == (n > 0) && (!found || (id >= 0 && id < n)), "Nearest(%v) = %d,%v on a tree of %d records (layout %s)", qb, id, found, n, layout)
			k.Count("priority_searches_inexact_layouts", 1)
		}
		// --- priority search
		if exactLayout(layout) && (qi < 4 || qi%3 == 0) {
			var order []int
			err := t.PrioritySearch(qb, func(id int) error { order = append(order, id); return nil })
			okOrder := err == nil
			prev := -1.0
			for _, id := range order {
				if id < 0 || id >= n {
					okOrder = false
					break
				}
				d := distRef(ref[id].Box, qb)
				if d < prev {
					okOrder = false
				}
				prev = d
			}
			k.Check("prio-order", okOrder, "PrioritySearch(%v) n=%d layout=%s visits out of distance order: %v", qb, n, layout, clip(order))
			s := append([]int(nil), order...)
			sort.Ints(s)
			complete := len(s) == n
			for i := range s {
				if i < len(s) && s[i] != i {
					complete = false
				}
			}
			k.Check("prio-complete", complete, "PrioritySearch(%v) n=%d visited %d records (each must be visited exactly once)", qb, n, len(order))
			k.Count("priority_searches", 1)
			// nearest
			id, found := t.Nearest(qb)
			if n == 0 {
				k.Check("nearest", !found, "Nearest on empty tree found %d", id)
			} else {
				min := distRef(ref[0].Box, qb)
				for _, it := range ref {
					if d := distRef(it.Box, qb); d < min {
						min = d
					}
				}
				k.Check("nearest", found && id >= 0 && id < n && distRef(ref[id].Box, qb) == min, "Nearest(%v) = %d,%v; min squared distance %g", qb, id, found, min)
			}
			if len(order) > 0 {
				for _, pos := range positions(r, len(order), allK && qi < 3) {
					protocol(k, "prio", pos, len(order), func(cb func(int) error) error { return t.PrioritySearch(qb, cb) })
				}
			}
			// nested searches (a nearest-neighbour join): searches with other query boxes run to completion from
			// inside the callback of this one, which must still be complete and in order afterwards
			if n >= 2 && qi < 6 {
				at := r.Intn(n)
				other := rtree.Box{MinX: qb.MaxX + 3, MinY: qb.MinY - 7, MaxX: qb.MaxX + 4, MaxY: qb.MinY - 5}
				var outer []int
				innerOK := true
				err := t.PrioritySearch(qb, func(id int) error {
					outer = append(outer, id)
					if len(outer)-1 == at {
						var inner []int
						if e := t.PrioritySearch(other, func(j int) error { inner = append(inner, j); return nil }); e != nil || len(inner) != n {
							innerOK = false
						}
						prevI := -1.0
						for _, j := range inner {
							if j < 0 || j >= n {
								innerOK = false
								break
							}
							d := distRef(ref[j].Box, other)
							if d < prevI {
								innerOK = false
							}
							prevI = d
						}
						_ = t.RangeSearch(other, func(int) error { return nil })
						_, _ = t.Nearest(other)
					}
					return nil
				})
				okN := err == nil && len(outer) == n
				prevO := -1.0
				seen := map[int]bool{}
				for _, id := range outer {
					if id < 0 || id >= n || seen[id] {
						okN = false
						break
					}
					seen[id] = true
					d := distRef(ref[id].Box, qb)
					if d < prevO {
						okN = false
					}
					prevO = d
				}
				k.Check("prio-order", okN && innerOK, "PrioritySearch(%v) n=%d with a nested search at visit %d: outer %v (inner ok=%v)", qb, n, at, clip(outer), innerOK)
				k.Count("nested_searches", 1)
			}
		}
	}
	if n == 0 {
		id, found := t.Nearest(rtree.Box{})
		k.Check("nearest", !found, "Nearest on empty tree found %d", id)
		var zero rtree.RTree
		k.Check("count", zero.Count() == 0, "zero RTree count")
		_, ok := zero.Extent()
		k.Check("extent", !ok, "zero RTree extent ok")
		calls := 0
		e1 := zero.RangeSearch(rtree.Box{}, func(int) error { calls++; return nil })
		e2 := zero.PrioritySearch(rtree.Box{}, func(int) error { calls++; return nil })
		k.Check("range-exact", calls == 0 && e1 == nil && e2 == nil, "zero RTree searches invoked callback")
	}
}

func exactLayout(l string) bool { return l != "decimal" && l != "float" && l != "huge" }

func positions(r *run.Rng, total int, all bool) []int {
	if all || total <= 6 {
		p := make([]int, total)
		for i := range p {
			p[i] = i
		}
		return p
	}
	p := []int{0, 1, total - 1, total / 2}
	for i := 0; i < 3; i++ {
		p = append(p, r.Intn(total))
	}
	return p
}

// protocol injects each callback behaviour at visit position pos.
func protocol(k *run.K, kind string, pos, total int, search func(cb func(int) error) error) {
	type beh struct {
		name string
		err  error
		mon  string
	}
	wrapped := fmt.Errorf("ctx: %w", rtree.Stop)
	for _, b := range []beh{{"Stop", rtree.Stop, "stop"}, {"wrapped Stop", wrapped, "wrapped-stop"}, {"error", errOther, "error-propagation"}} {
		calls, after := 0, 0
		ret := search(func(id int) error {
			if calls > pos {
				after++
			}
			calls++
			if calls-1 == pos {
				return b.err
			}
			return nil
		})
		k.Count("protocol_injections", 1)
		class := kind + "-callback-after-" + strings.ReplaceAll(b.name, " ", "-")
		if b.err == errOther {
			k.CheckClass(b.mon, class, after == 0, "%s search: callback invoked %d more time(s) after returning an error at position %d of %d", kind, after, pos, total)
			k.Check(b.mon, ret == errOther, "%s search: returned %v, want the callback's error unchanged", kind, ret)
		} else {
			k.CheckClass(b.mon, class, after == 0, "%s search: callback invoked %d more time(s) after returning %s at position %d of %d", kind, after, b.name, pos, total)
			k.Check(b.mon, ret == nil, "%s search: %s surfaced as %v, want nil", kind, b.name, ret)
		}
	}
}

func minf(a, b float64) float64 {
	if a < b {
		return a
	}
	return b
}
func maxf(a, b float64) float64 {
	if a > b {
		return a
	}
	return b
}

func equalInts(a, b []int) bool {
	if len(a) != len(b) {
		return false
	}
	for i := range a {
		if a[i] != b[i] {
			return false
		}
	}
	return true
}

func clip(a []int) []int {
	if len(a) > 30 {
		return a[:30]
	}
	return a
}

func boundarySizes() []int {
	set := map[int]bool{}
	for p := 16; p <= 4096; p *= 4 {
		for _, d := range []int{-1, 0, 1} {
			set[p+d] = true
			set[2*p+d] = true
			set[p/2*3+d] = true
		}
	}
	for _, s := range []int{41, 50, 100, 333, 1000, 2500, 4999, 5000} {
		set[s] = true
	}
	var out []int
	for s := range set {
		if s > 40 && s <= 5000 {
			out = append(out, s)
		}
	}
	sort.Ints(out)
	return out
}

func runAll(c *run.Ctx) {
	reps := c.N(20, 80)
	for _, layout := range layouts {
		for n := 0; n <= 40; n++ {
			for rep := 0; rep < reps; rep++ {
				c.Case(fmt.Sprintf("small:%s:%d", layout, n), rep, func(k *run.K) {
					oneCase(k, layout, n, c.N(10, 24), true)
				})
			}
		}
	}
	sizes := boundarySizes()
	bigReps := c.N(2, 10)
	for _, layout := range layouts {
		for _, n := range sizes {
			if c.Quick() && n > 1100 && layout != "uniform" && layout != "clustered" {
				continue
			}
			for rep := 0; rep < bigReps; rep++ {
				c.Case(fmt.Sprintf("large:%s:%d", layout, n), rep, func(k *run.K) {
					oneCase(k, layout, n, c.N(6, 16), false)
				})
			}
		}
	}
}
