// Package props links every property package into the vmon binary.
package props

import (
	_ "verif/props/c01"
	_ "verif/props/c02"
	_ "verif/props/c03"
	_ "verif/props/c04"
	_ "verif/props/c05"
	_ "verif/props/c06"
	_ "verif/props/c07"
	_ "verif/props/c08"
	_ "verif/props/c09"
	_ "verif/props/c10"
	_ "verif/props/c11"
	_ "verif/props/c12"
	_ "verif/props/c13"
	_ "verif/props/c14"
	_ "verif/props/c15"
	_ "verif/props/c16"
	_ "verif/props/c17"
	_ "verif/props/c18"
	_ "verif/props/c19"
	_ "verif/props/c20"
)
