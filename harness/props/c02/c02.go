// Package c02 monitors Relate and the named predicates against the exact
// DE-9IM oracle.
package c02

import (
	"fmt"

	"github.com/peterstace/simplefeatures/geom"

	"verif/exact"
	"verif/gen"
	"verif/props/shared"
	"verif/run"
)

func init() {
	run.Register(&run.Property{
		ID:    "C02",
		Title: "Relate returns the true DE-9IM matrix and the named predicates follow from it",
		Rule: "[added in rounds 9-11: payload-blind: the matrix is re-judged on copies carrying independent Z/M at every control point] cases = ordered operand pairs drawn (PRNG) from one lattice/GP domain: the six non-collection types in every combination incl. typed empties, plus collections whose members the oracle certifies pairwise disjoint; " +
			"each case evaluates Relate both ways, the nine predicates and Intersects against the exact arrangement oracle. non-trivial = matrix is not the disjoint pattern FF*FF****; distinct by operand WKB",
		Assumptions: []string{
			"exact rational arrangement oracle (verif/exact) with definitional locate is the reference; its self-checks run in the same process",
			"cases with clearance below 1e-9*M (lattice) / 1e-6*M (general position) are excluded and counted",
			"Crosses/Overlaps dispatch on the dimension of the non-empty part of each operand",
		},
		MinNontrivial:    200,
		RequiredMonitors: []string{"matrix", "transpose", "pred-Equals", "pred-Crosses", "pred-identities", "relate-matches", "payload-blind"},
		Run:              runAll,
	})
}

func match(im, pat string) bool {
	for i := 0; i < 9; i++ {
		switch pat[i] {
		case '*':
		case 'T':
			if im[i] == 'F' {
				return false
			}
		default:
			if im[i] != pat[i] {
				return false
			}
		}
	}
	return true
}

func anyMatch(im string, pats ...string) bool {
	for _, p := range pats {
		if match(im, p) {
			return true
		}
	}
	return false
}

// Expected values of the predicates from the matrix, typed from the
// documentation of each function.
func expected(im string, a, b *exact.Shape) map[string]bool {
	da, db := a.Dim(), b.Dim()
	out := map[string]bool{}
	out["Equals"] = (a.IsEmpty() && b.IsEmpty()) || match(im, "T*F**FFF*")
	out["Disjoint"] = match(im, "FF*FF****")
	out["Touches"] = anyMatch(im, "FT*******", "F**T*****", "F***T****")
	out["Contains"] = match(im, "T*****FF*")
	out["Covers"] = anyMatch(im, "T*****FF*", "*T****FF*", "***T**FF*", "****T*FF*")
	out["Within"] = match(im, "T*F**F***")
	out["CoveredBy"] = anyMatch(im, "T*F**F***", "*TF**F***", "**FT*F***", "**F*TF***")
	switch {
	case da < 0 || db < 0:
		out["Crosses"] = false
	case da < db:
		out["Crosses"] = match(im, "T*T******")
	case da > db:
		out["Crosses"] = match(im, "T*****T**")
	case da == 1 && db == 1:
		out["Crosses"] = match(im, "0********")
	default:
		out["Crosses"] = false
	}
	switch {
	case da < 0 || db < 0:
		out["Overlaps"] = false
	case (da == 0 && db == 0) || (da == 2 && db == 2):
		out["Overlaps"] = match(im, "T*T***T**")
	case da == 1 && db == 1:
		out["Overlaps"] = match(im, "1*T***T**")
	default:
		out["Overlaps"] = false
	}
	return out
}

func transpose(im string) string {
	b := []byte(im)
	return string([]byte{b[0], b[3], b[6], b[1], b[4], b[7], b[2], b[5], b[8]})
}

type predFn func(a, b geom.Geometry) (bool, error)

var preds = []struct {
	name string
	fn   predFn
}{
	{"Equals", geom.Equals}, {"Disjoint", geom.Disjoint}, {"Touches", geom.Touches}, {"Contains", geom.Contains},
	{"Covers", geom.Covers}, {"Within", geom.Within}, {"CoveredBy", geom.CoveredBy}, {"Crosses", geom.Crosses}, {"Overlaps", geom.Overlaps},
}

func operand(g *gen.G, kind int) geom.Geometry {
	switch {
	case kind < 6:
		return g.Typed(gen.AllTypes[kind], 0)
	case kind == 6:
		return shared.DisjointCollection(g, true)
	default:
		return gen.EmptyOf(gen.AllTypes[g.R.Intn(7)], geom.DimXY)
	}
}

// Judge runs all C02 monitors on one ordered pair (exported for reuse by C20).
func Judge(k *run.K, domain string, a, b geom.Geometry) {
	sa, sb := exact.FromGeom(a), exact.FromGeom(b)
	want, arr := exact.Relate(sa, sb)
	if arr.Err != "" {
		k.Skip("oracle-inconsistent")
		k.Count("oracle_inconsistent", 1)
		k.Distinct("oracle_err", arr.Err)
		return
	}
	m := shared.MaxAbs2(sa, sb)
	if cl := arr.Clearance(); cl < shared.ClearanceBound(domain, m) {
		k.Skip("matrix")
		k.Count("excluded_by_clearance", 1)
		return
	}
	var got, gotT string
	var err, errT error
	if k.Lib("nopanic", func() {
		got, err = geom.Relate(a, b)
		gotT, errT = geom.Relate(b, a)
	}) {
		return
	}
	k.Obs("relate", got)
	k.Obs("oracle", want)
	k.Distinct("matrices", want)
	k.Distinct("type_pairs", shared.TypeName(a)+"/"+shared.TypeName(b))
	if !match(want, "FF*FF****") {
		k.Nontrivial(string(a.AsBinary()) + "|" + string(b.AsBinary()))
	}
	class := ""
	if (a.IsEmpty() || b.IsEmpty()) && (a.IsGeometryCollection() || b.IsGeometryCollection()) {
		class = "empty-operand-closed-form-with-collection"
	}
	k.CheckClass("matrix", class, err == nil && got == want, "Relate(a,b)=%q err=%v, exact DE-9IM=%q", got, err, want)
	k.Check("transpose", errT == nil && gotT == transpose(got), "Relate(b,a)=%q is not the transpose of Relate(a,b)=%q", gotT, got)
	exp := expected(want, sa, sb)
	obs := map[string]bool{}
	for _, p := range preds {
		var v bool
		var e error
		if k.Lib("nopanic", func() { v, e = p.fn(a, b) }) {
			continue
		}
		obs[p.name] = v
		k.Check("pred-"+p.name, e == nil && v == exp[p.name], "%s(a,b)=%v err=%v; pattern on exact matrix %q gives %v", p.name, v, e, want, exp[p.name])
	}
	// the public pattern matcher on the library's own matrix: every single-entry substitution of the
	// all-wildcard pattern and of the matrix itself, plus random patterns
	if err == nil && len(got) == 9 {
		var pats []string
		for i := 0; i < 9; i++ {
			for _, ch := range "F012T*" {
				p1 := []byte("*********")
				p1[i] = byte(ch)
				p2 := []byte(got)
				p2[i] = byte(ch)
				pats = append(pats, string(p1), string(p2))
			}
		}
		for j := 0; j < 20; j++ {
			pr := make([]byte, 9)
			for i := range pr {
				pr[i] = "F012T***"[k.Rng.Intn(8)]
			}
			pats = append(pats, string(pr))
		}
		for _, pat := range pats {
			var v bool
			var e error
			if k.Lib("nopanic", func() { v, e = geom.RelateMatches(got, pat) }) {
				break
			}
			if !k.Check("relate-matches", e == nil && v == match(got, pat), "RelateMatches(%q, %q) = %v, %v; definition gives %v", got, pat, v, e, match(got, pat)) {
				break
			}
		}
	}
	// the matrix is a function of the point sets in the plane: independent Z/M values at every control
	// point (different at coinciding XY: ring and line closing points, repeated vertices, touching members)
	// must not change it, whatever the coordinate type of either operand
	if k.Index%2 == 0 {
		az, bz := a, b
		if k.Rng.Intn(3) > 0 {
			az = shared.Payload(k.Rng, a, shared.PayloadCT(k.Rng))
		}
		if k.Rng.Intn(3) > 0 || az.CoordinatesType() == geom.DimXY {
			bz = shared.Payload(k.Rng, b, shared.PayloadCT(k.Rng))
		}
		var gz, gzT string
		var ez, ezT error
		if !k.Lib("nopanic", func() {
			gz, ez = geom.Relate(az, bz)
			gzT, ezT = geom.Relate(bz, az)
		}) {
			k.Check("payload-blind", ez == nil && ezT == nil && gz == want && gzT == transpose(want), "Relate with Z/M payload = %q/%q (err %v/%v), exact DE-9IM %q\n a=%s\n b=%s", gz, gzT, ez, ezT, want, az.AsText(), bz.AsText())
		}
	}
	// identities between calls
	var wba, cbba bool
	var inter bool
	if !k.Lib("nopanic", func() {
		wba, _ = geom.Within(b, a)
		cbba, _ = geom.CoveredBy(b, a)
		inter = geom.Intersects(a, b)
	}) {
		k.Check("pred-identities", obs["Contains"] == wba, "Contains(a,b)=%v but Within(b,a)=%v", obs["Contains"], wba)
		k.Check("pred-identities", obs["Covers"] == cbba, "Covers(a,b)=%v but CoveredBy(b,a)=%v", obs["Covers"], cbba)
		k.Check("pred-identities", obs["Disjoint"] == !inter, "Disjoint(a,b)=%v but Intersects(a,b)=%v", obs["Disjoint"], inter)
	}
}

func runAll(c *run.Ctx) {
	for i := 0; i < c.N(600, 10000); i++ {
		c.Case("big", i, func(k *run.K) {
			domain := []string{gen.DLarge, gen.DGP, gen.DSmall}[k.Rng.Intn(3)]
			cfg := gen.NewCfg(k.Rng, domain)
			cfg.Big = true
			if domain == gen.DSmall {
				cfg.Side = 12
			}
			g := &gen.G{R: k.Rng, Cfg: cfg}
			a, b := g.Typed(gen.AllTypes[k.Rng.Intn(6)], 0), g.Typed(gen.AllTypes[k.Rng.Intn(6)], 0)
			k.In("domain", domain)
			k.In("a", shared.WKT(a))
			k.In("b", shared.WKT(b))
			Judge(k, domain, a, b)
		})
	}
	// an areal operand strictly inside the other's shell that crosses one of its hole rings, with every choice
	// of its start vertex (inside the hole, inside the solid part, on neither ring)
	for i := 0; i < c.N(800, 12000); i++ {
		c.Case("hole-cross", i, func(k *run.K) {
			r := k.Rng
			S := float64(r.Range(10, 14))
			hx, hy := float64(r.Range(3, 4)), float64(r.Range(3, 4))
			hw, hh := float64(r.Range(3, 5)), float64(r.Range(3, 5))
			a := geom.NewPolygonXY([]float64{0, 0, S, 0, S, S, 0, S, 0, 0},
				[]float64{hx, hy, hx + hw, hy, hx + hw, hy + hh, hx, hy + hh, hx, hy}).AsGeometry()
			// b: a rectangle from inside the hole to the solid part on one side
			bx0, by0 := hx+1, hy+1
			bx1, by1 := hx+hw+float64(r.Range(1, 2)), hy+hh-1
			if r.Bool() {
				bx1, by1 = hx+hw-1, hy+hh+float64(r.Range(1, 2))
			}
			ring := [][2]float64{{bx0, by0}, {bx1, by0}, {bx1, by1}, {bx0, by1}}
			st := r.Intn(4)
			var fs []float64
			for j := 0; j <= 4; j++ {
				p := ring[(st+j)%4]
				fs = append(fs, p[0], p[1])
			}
			b := geom.NewPolygonXY(fs).AsGeometry()
			if r.Chance(1, 3) {
				b = geom.NewMultiPolygon([]geom.Polygon{b.MustAsPolygon()}).AsGeometry()
			}
			if r.Chance(1, 3) {
				a = geom.NewMultiPolygon([]geom.Polygon{a.MustAsPolygon()}).AsGeometry()
			}
			if !exact.ValidGeom(a).OK || !exact.ValidGeom(b).OK {
				k.Skip("matrix")
				return
			}
			k.In("domain", gen.DSmall)
			k.In("a", shared.WKT(a))
			k.In("b", shared.WKT(b))
			Judge(k, gen.DSmall, a, b)
			Judge(k, gen.DSmall, b, a)
		})
	}
	for i := 0; i < c.N(4000, 60000); i++ {
		c.Case("grid", i, func(k *run.K) {
			domain := gen.DSmall
			g := &gen.G{R: k.Rng, Cfg: gen.NewCfg(k.Rng, domain)}
			a := g.GridTyped(gen.AllTypes[k.Rng.Intn(6)])
			b := g.GridTyped(gen.AllTypes[k.Rng.Intn(6)])
			k.In("domain", domain)
			k.In("a", shared.WKT(a))
			k.In("b", shared.WKT(b))
			Judge(k, domain, a, b)
		})
	}
	// 8 operand kinds: 6 plain types, disjoint collection, typed empty
	perPair := c.N(450, 4000)
	for ka := 0; ka < 8; ka++ {
		for kb := 0; kb < 8; kb++ {
			n := perPair
			if ka == 7 || kb == 7 {
				n = perPair / 4
			}
			for i := 0; i < n; i++ {
				c.Case(fmt.Sprintf("pair:%d-%d", ka, kb), i, func(k *run.K) {
					domain := shared.PickDomain(k.Rng)
					g := &gen.G{R: k.Rng, Cfg: gen.NewCfg(k.Rng, domain)}
					a, b := operand(g, ka), operand(g, kb)
					k.In("domain", domain)
					k.In("a", shared.WKT(a))
					k.In("b", shared.WKT(b))
					Judge(k, domain, a, b)
				})
			}
		}
	}
}
