// Package c18 monitors ExactEquals against WKB byte equality (no options) and
// against a canonical-form comparison (IgnoreOrder), plus tolerance behaviour.
package c18

import (
	"bytes"
	"fmt"
	"math"
	"sort"
	"strings"

	"github.com/peterstace/simplefeatures/geom"

	"verif/codec"
	"verif/exact"
	"verif/gen"
	"verif/model"
	"verif/run"
)

func init() {
	run.Register(&run.Property{
		ID:    "C18",
		Title: "ExactEquals is structural identity; IgnoreOrder ignores only member/vertex order",
		Rule: "[added in rounds 9-11: tol-matching also on polygon holes, MultiPolygon members and nested collections] cases = a base geometry tree (arbitrary finite-ordinate trees of every type/coordinate type/nesting with magnitudes from subnormal to 1e300, and valid lattice geometries with Z/M) together with a family of variants differing in exactly one respect (one ordinate by one ulp, two members swapped, one ring rotated or reversed, one linestring reversed, one member's emptiness, coordinate type, Point vs one-member MultiPoint, a duplicated member) and random permutations/rotations/reversals at every level; " +
			"ExactEquals with every option subset and both argument orders is compared with WKB equality (-0 = +0) and with a canonical form. non-trivial = pair of distinct trees; distinct by the pair of WKBs",
		Assumptions: []string{"canonical form under IgnoreOrder: members sorted recursively, LineString = min(sequence, reversal), closed simple curves (decided by the exact oracle) = minimal rotation over both directions, polygon shell kept first",
			"ToleranceXY: reflexive, symmetric, true for vertex-wise XY perturbations below e, false when exactly one vertex moves by more than e"},
		MinNontrivial:    500,
		RequiredMonitors: []string{"vs-wkb", "ignoreorder-canonical", "symmetric", "reflexive", "transitive", "tolerance"},
		Run:              runAll,
	})
}

func noNegZero(t model.Tree) model.Tree {
	return t.Map(func(c []float64, _ geom.CoordinatesType) {
		for i := range c {
			if c[i] == 0 {
				c[i] = 0
			}
		}
	})
}

func wkbKey(t model.Tree) string { return string(codec.EncodeWKB(noNegZero(t))) }

func tupleKey(c []float64) string {
	var sb strings.Builder
	for _, v := range c {
		if v == 0 {
			v = 0
		}
		fmt.Fprintf(&sb, "%016x,", orderedBits(v))
	}
	return sb.String()
}

func orderedBits(f float64) uint64 {
	b := math.Float64bits(f)
	if b>>63 == 1 {
		return ^b
	}
	return b | 1<<63
}

func isRingCurve(c []float64, d int) bool {
	n := len(c) / d
	if n < 2 {
		return false
	}
	// closed as a whole tuple (Z and M included): only then is "the start
	// vertex of the ring" an order-insignificant choice
	for j := 0; j < d; j++ {
		if c[j] != c[(n-1)*d+j] {
			return false
		}
	}
	pts := make([]exact.Pt, n)
	for i := 0; i < n; i++ {
		pts[i] = exact.PF(c[i*d], c[i*d+1])
	}
	return exact.SimpleCurve(pts)
}

func curveCanon(c []float64, ct geom.CoordinatesType) string {
	d := ct.Dimension()
	n := len(c) / d
	seqKey := func(idx func(i int) int, m int) string {
		var sb strings.Builder
		for i := 0; i < m; i++ {
			j := idx(i)
			sb.WriteString(tupleKey(c[j*d : j*d+d]))
			sb.WriteByte(';')
		}
		return sb.String()
	}
	best := seqKey(func(i int) int { return i }, n)
	if r := seqKey(func(i int) int { return n - 1 - i }, n); r < best {
		best = r
	}
	if isRingCurve(c, d) && n >= 2 {
		m := n - 1
		for o := 0; o < m; o++ {
			for _, rev := range []bool{false, true} {
				k := seqKey(func(i int) int {
					j := (i + o) % m
					if rev {
						j = (m - (i+o)%m) % m
					}
					return j
				}, n)
				if k < best {
					best = k
				}
			}
		}
	}
	return best
}

func canon(t model.Tree) string {
	head := fmt.Sprintf("%v/%v", t.Type, t.CT)
	switch t.Type {
	case geom.TypePoint:
		if len(t.Coords) == 0 {
			return head + "{EMPTY}"
		}
		return head + "{" + tupleKey(t.Coords) + "}"
	case geom.TypeLineString:
		return head + "{" + curveCanon(t.Coords, t.CT) + "}"
	case geom.TypePolygon:
		if len(t.Kids) == 0 {
			return head + "{}"
		}
		var holes []string
		for _, h := range t.Kids[1:] {
			holes = append(holes, curveCanon(h.Coords, h.CT))
		}
		sort.Strings(holes)
		return head + "{" + curveCanon(t.Kids[0].Coords, t.Kids[0].CT) + "|" + strings.Join(holes, "|") + "}"
	default:
		var ms []string
		for _, k := range t.Kids {
			ms = append(ms, canon(k))
		}
		sort.Strings(ms)
		return head + "{" + strings.Join(ms, "&") + "}"
	}
}

// extremeClosedCurve: some XY-closed curve has an ordinate that is not a
// moderate decimal (|v| <= 1e7 with at most 7 decimals).
func extremeClosedCurve(t model.Tree) bool {
	if t.Type == geom.TypeLineString {
		d := t.CT.Dimension()
		n := len(t.Coords) / d
		if n >= 2 && t.Coords[0] == t.Coords[(n-1)*d] && t.Coords[1] == t.Coords[(n-1)*d+1] {
			for i := 0; i < n; i++ {
				for j := 0; j < 2; j++ {
					v := t.Coords[i*d+j]
					if math.Abs(v) > 1e7 || (v != 0 && math.Abs(v) < 1e-7) {
						return true
					}
				}
			}
		}
	}
	for _, k := range t.Kids {
		if extremeClosedCurve(k) {
			return true
		}
	}
	return false
}

// ---------- variants ----------

type path []int

func nodesOfType(t model.Tree, pred func(n model.Tree, parent *model.Tree) bool) []path {
	var out []path
	var rec func(n model.Tree, parent *model.Tree, p path)
	rec = func(n model.Tree, parent *model.Tree, p path) {
		if pred(n, parent) {
			out = append(out, append(path(nil), p...))
		}
		for i := range n.Kids {
			rec(n.Kids[i], &n, append(p, i))
		}
	}
	rec(t, nil, nil)
	return out
}

func clone(t model.Tree) model.Tree {
	n := model.Tree{Type: t.Type, CT: t.CT, Coords: append([]float64(nil), t.Coords...)}
	for _, k := range t.Kids {
		n.Kids = append(n.Kids, clone(k))
	}
	return n
}

func at(t *model.Tree, p path) *model.Tree {
	n := t
	for _, i := range p {
		n = &n.Kids[i]
	}
	return n
}

func reverseCoords(c []float64, d int) []float64 {
	n := len(c) / d
	out := make([]float64, 0, len(c))
	for i := n - 1; i >= 0; i-- {
		out = append(out, c[i*d:i*d+d]...)
	}
	return out
}

func rotateCoords(c []float64, d, k int) []float64 {
	n := len(c) / d
	if n < 3 {
		return c
	}
	m := n - 1
	out := make([]float64, 0, len(c))
	for i := 0; i <= m; i++ {
		j := (k + i) % m
		out = append(out, c[j*d:j*d+d]...)
	}
	return out
}

func variant(r *run.Rng, base model.Tree) (model.Tree, string) {
	v := clone(base)
	isColl := func(n model.Tree, _ *model.Tree) bool {
		return (n.Type == geom.TypeMultiPoint || n.Type == geom.TypeMultiLineString || n.Type == geom.TypeMultiPolygon || n.Type == geom.TypeGeometryCollection) && len(n.Kids) >= 2
	}
	hasCoords := func(n model.Tree, _ *model.Tree) bool { return len(n.Coords) > 0 }
	curves := func(n model.Tree, _ *model.Tree) bool { return n.Type == geom.TypeLineString && len(n.Coords) > 0 }
	for tries := 0; tries < 12; tries++ {
		switch r.Intn(13) {
		case 0: // one ordinate by one ulp
			ps := nodesOfType(v, hasCoords)
			if len(ps) == 0 {
				continue
			}
			n := at(&v, ps[r.Intn(len(ps))])
			i := r.Intn(len(n.Coords))
			nv := math.Nextafter(n.Coords[i], math.Inf(-1))
			if r.Bool() {
				nv = math.Nextafter(n.Coords[i], math.Inf(1))
			}
			if math.IsInf(nv, 0) {
				continue
			}
			n.Coords[i] = nv
			return v, "one ordinate by one ulp"
		case 1: // swap two members
			ps := nodesOfType(v, isColl)
			if len(ps) == 0 {
				continue
			}
			n := at(&v, ps[r.Intn(len(ps))])
			i, j := r.Intn(len(n.Kids)), r.Intn(len(n.Kids))
			n.Kids[i], n.Kids[j] = n.Kids[j], n.Kids[i]
			return v, "two members swapped"
		case 2: // swap two holes
			ps := nodesOfType(v, func(n model.Tree, _ *model.Tree) bool { return n.Type == geom.TypePolygon && len(n.Kids) >= 3 })
			if len(ps) == 0 {
				continue
			}
			n := at(&v, ps[r.Intn(len(ps))])
			n.Kids[1], n.Kids[2] = n.Kids[2], n.Kids[1]
			return v, "two holes swapped"
		case 3: // reverse a curve
			ps := nodesOfType(v, curves)
			if len(ps) == 0 {
				continue
			}
			n := at(&v, ps[r.Intn(len(ps))])
			n.Coords = reverseCoords(n.Coords, n.CT.Dimension())
			return v, "one curve reversed"
		case 4: // rotate a curve (only order-insignificant when it is a ring)
			ps := nodesOfType(v, curves)
			if len(ps) == 0 {
				continue
			}
			n := at(&v, ps[r.Intn(len(ps))])
			d := n.CT.Dimension()
			if len(n.Coords)/d < 4 {
				continue
			}
			n.Coords = rotateCoords(n.Coords, d, 1+r.Intn(len(n.Coords)/d-2))
			return v, "one curve rotated"
		case 5: // emptiness of one member
			ps := nodesOfType(v, func(n model.Tree, p *model.Tree) bool { return p != nil && p.Type != geom.TypePolygon })
			if len(ps) == 0 {
				continue
			}
			n := at(&v, ps[r.Intn(len(ps))])
			if n.IsEmptyNode() {
				*n = model.RandTree(r, n.Type, n.CT, 0, model.ValueOpts{Simple: true})
				if n.Type == geom.TypePoint && r.Bool() {
					// the origin: an empty Point's zero-valued coordinates must not be mistaken for it
					n.Coords = make([]float64, n.CT.Dimension())
				}
			} else {
				*n = model.Tree{Type: n.Type, CT: n.CT}
			}
			return v, "one member's emptiness"
		case 6: // coordinate type
			ct := model.CTypes[r.Intn(4)]
			if ct == v.CT {
				continue
			}
			g := model.ToGeom(v).ForceCoordinatesType(ct)
			t, _ := model.FromGeom(g)
			return t, "coordinate type"
		case 7: // Point vs one-member MultiPoint
			if v.Type == geom.TypePoint {
				return model.Tree{Type: geom.TypeMultiPoint, CT: v.CT, Kids: []model.Tree{v}}, "Point vs one-member MultiPoint"
			}
			continue
		case 8: // duplicate a member
			ps := nodesOfType(v, func(n model.Tree, _ *model.Tree) bool {
				return (n.Type == geom.TypeMultiPoint || n.Type == geom.TypeMultiLineString || n.Type == geom.TypeMultiPolygon || n.Type == geom.TypeGeometryCollection) && len(n.Kids) >= 1
			})
			if len(ps) == 0 {
				continue
			}
			n := at(&v, ps[r.Intn(len(ps))])
			n.Kids = append(n.Kids, clone(n.Kids[r.Intn(len(n.Kids))]))
			return v, "one member duplicated"
		case 9, 10: // drop the last (9) or first (10) member / ring of a node
			which := "last"
			ps := nodesOfType(v, func(n model.Tree, _ *model.Tree) bool { return len(n.Kids) >= 1 })
			if len(ps) == 0 {
				continue
			}
			n := at(&v, ps[r.Intn(len(ps))])
			if n.Type == geom.TypePolygon && len(n.Kids) == 1 {
				continue // a polygon without rings is the empty polygon: covered by "emptiness"
			}
			if r.Bool() || n.Type == geom.TypePolygon {
				n.Kids = n.Kids[:len(n.Kids)-1]
			} else {
				n.Kids, which = n.Kids[1:], "first"
			}
			return v, "the " + which + " member or ring dropped"
		case 11: // one more ring: the last ring of a polygon appended again
			ps := nodesOfType(v, func(n model.Tree, _ *model.Tree) bool { return n.Type == geom.TypePolygon && len(n.Kids) >= 1 })
			if len(ps) == 0 {
				continue
			}
			n := at(&v, ps[r.Intn(len(ps))])
			n.Kids = append(n.Kids, clone(n.Kids[len(n.Kids)-1]))
			return v, "one ring appended"
		case 12: // one vertex fewer or one repeated vertex more at the end of a curve
			ps := nodesOfType(v, func(n model.Tree, p *model.Tree) bool {
				return n.Type == geom.TypeLineString && len(n.Coords) > 0 && (p == nil || p.Type != geom.TypePolygon)
			})
			if len(ps) == 0 {
				continue
			}
			n := at(&v, ps[r.Intn(len(ps))])
			d := n.CT.Dimension()
			if r.Bool() && len(n.Coords) >= 3*d {
				n.Coords = append([]float64(nil), n.Coords[:len(n.Coords)-d]...)
				return v, "last vertex of a curve dropped"
			}
			n.Coords = append(append([]float64(nil), n.Coords...), n.Coords[len(n.Coords)-d:]...)
			return v, "last vertex of a curve repeated"
		}
	}
	return v, "identical copy"
}

// shuffle applies random order-insignificant changes at every level.
func shuffle(r *run.Rng, t model.Tree) model.Tree {
	v := clone(t)
	var rec func(n *model.Tree, inPolygon bool, idx int)
	rec = func(n *model.Tree, inPolygon bool, idx int) {
		switch n.Type {
		case geom.TypeLineString:
			d := n.CT.Dimension()
			if len(n.Coords) == 0 {
				return
			}
			if isRingCurve(n.Coords, d) && len(n.Coords)/d >= 4 {
				n.Coords = rotateCoords(n.Coords, d, r.Intn(len(n.Coords)/d-1))
			}
			if r.Bool() {
				n.Coords = reverseCoords(n.Coords, d)
			}
		case geom.TypePolygon:
			for i := range n.Kids {
				rec(&n.Kids[i], true, i)
			}
			if len(n.Kids) > 2 {
				p := r.Perm(len(n.Kids) - 1)
				holes := append([]model.Tree(nil), n.Kids[1:]...)
				for i, j := range p {
					n.Kids[1+i] = holes[j]
				}
			}
		case geom.TypePoint:
		default:
			for i := range n.Kids {
				rec(&n.Kids[i], false, i)
			}
			p := r.Perm(len(n.Kids))
			ks := append([]model.Tree(nil), n.Kids...)
			for i, j := range p {
				n.Kids[i] = ks[j]
			}
		}
	}
	rec(&v, false, 0)
	return v
}

func treeOf(g geom.Geometry) model.Tree { t, _ := model.FromGeom(g); return t }

func judgePair(k *run.K, a, b model.Tree, what string) {
	ga, gb := model.ToGeom(a), model.ToGeom(b)
	// construction must produce the intended trees (else C16's business)
	if !model.Equal(treeOf(ga), a) || !model.Equal(treeOf(gb), b) {
		k.Skip("vs-wkb")
		k.Count("construct_mismatch", 1)
		return
	}
	var eq, eqR, io, ioR bool
	if k.Lib("nopanic", func() {
		eq, eqR = geom.ExactEquals(ga, gb), geom.ExactEquals(gb, ga)
		io, ioR = geom.ExactEquals(ga, gb, geom.IgnoreOrder), geom.ExactEquals(gb, ga, geom.IgnoreOrder)
	}) {
		return
	}
	wantEq := wkbKey(a) == wkbKey(b)
	wantIO := canon(a) == canon(b)
	if extremeClosedCurve(a) || extremeClosedCurve(b) {
		// whether a closed curve with ordinates of extreme magnitude is simple
		// (hence a ring) is outside the domain in which IsSimple is judged (C03):
		// judge only the option-free comparison
		k.Check("vs-wkb", eq == wantEq && eq == eqR, "ExactEquals(a,b)=%v/%v but WKB equality (mod -0) is %v [%s]\n a=%s\n b=%s", eq, eqR, wantEq, what, a, b)
		k.Skip("ignoreorder-canonical")
		return
	}
	k.Distinct("difference_kinds", what)
	if !bytes.Equal(codec.EncodeWKB(a), codec.EncodeWKB(b)) {
		k.Nontrivial(string(codec.EncodeWKB(a)) + "|" + string(codec.EncodeWKB(b)))
	}
	k.Check("vs-wkb", eq == wantEq, "ExactEquals(a,b)=%v but WKB equality (mod -0) is %v [%s]\n a=%s\n b=%s", eq, wantEq, what, a, b)
	k.Check("ignoreorder-canonical", io == wantIO, "ExactEquals(a,b,IgnoreOrder)=%v but canonical forms equal=%v [%s]\n a=%s\n b=%s", io, wantIO, what, a, b)
	k.Check("symmetric", eq == eqR && io == ioR, "not symmetric: plain %v/%v IgnoreOrder %v/%v [%s]\n a=%s\n b=%s", eq, eqR, io, ioR, what, a, b)
	if eq {
		k.Check("ignoreorder-canonical", io, "equal without options but not with IgnoreOrder\n a=%s\n b=%s", a, b)
	}
}

func baseTree(r *run.Rng) model.Tree {
	if r.Bool() {
		g := &gen.G{R: r, Cfg: gen.NewCfg(r, gen.DSmall)}
		x := g.Rich(2)
		t, _ := model.FromGeom(x)
		t = model.SetZM(r, t, t.CT, model.ValueOpts{Simple: true}, false)
		if r.Chance(1, 3) {
			// repeated consecutive vertices (also at the start / closing point of rings) are
			// legal and make ring-rotation matching ambiguous
			for n := r.Range(1, 2); n > 0; n-- {
				ps := nodesOfType(t, func(n model.Tree, _ *model.Tree) bool { return n.Type == geom.TypeLineString && len(n.Coords) > 0 })
				if len(ps) == 0 {
					break
				}
				nd := at(&t, ps[r.Intn(len(ps))])
				d := nd.CT.Dimension()
				cnt := len(nd.Coords) / d
				i := []int{0, cnt - 1, r.Intn(cnt)}[r.Intn(3)]
				tup := append([]float64(nil), nd.Coords[i*d:i*d+d]...)
				nd.Coords = append(nd.Coords[:i*d+d], append(tup, nd.Coords[i*d+d:]...)...)
			}
		}
		return t
	}
	typ := model.Types[r.Intn(7)]
	ct := model.CTypes[r.Intn(4)]
	return model.RandTree(r, typ, ct, 3, model.ValueOpts{})
}

func tolerance(k *run.K, base model.Tree) {
	g := model.ToGeom(base)
	if !model.Equal(treeOf(g), base) {
		return
	}
	var flat []*float64
	_ = flat
	// magnitude
	m := 0.0
	base.Map(func(c []float64, _ geom.CoordinatesType) { m = math.Max(m, math.Max(math.Abs(c[0]), math.Abs(c[1]))) })
	if m > 1e100 || !base.HasOrdinate() {
		k.Skip("tolerance")
		return
	}
	e := []float64{1e-3, 0.5, 10}[k.Rng.Intn(3)] * math.Max(m, 1) * 1e-3
	// all vertices perturbed by < e
	small := base.Map(func(c []float64, _ geom.CoordinatesType) {
		c[0] += (k.Rng.Float64() - 0.5) * e
		c[1] += (k.Rng.Float64() - 0.5) * e
	})
	// exactly one vertex moved by > e
	first := true
	big := base.Map(func(c []float64, _ geom.CoordinatesType) {
		if first {
			c[0] += 3 * e
			first = false
		}
	})
	gs, gb := model.ToGeom(small), model.ToGeom(big)
	var r1, r2, r3, r4, r5 bool
	if k.Lib("nopanic", func() {
		r1 = geom.ExactEquals(g, g, geom.ToleranceXY(e))
		r2 = geom.ExactEquals(g, gs, geom.ToleranceXY(e))
		r3 = geom.ExactEquals(gs, g, geom.ToleranceXY(e))
		r4 = geom.ExactEquals(g, gb, geom.ToleranceXY(e))
		r5 = geom.ExactEquals(gb, g, geom.ToleranceXY(e))
	}) {
		return
	}
	k.Check("tolerance", r1, "ToleranceXY(%g) not reflexive on %s", e, base)
	k.Check("tolerance", r2 && r3, "ToleranceXY(%g): perturbation below e not accepted (%v/%v)\n a=%s\n b=%s", e, r2, r3, base, small)
	// a closed ring's first and last vertex move together in `big` only if they are separate tuples; moving one of them breaks closure, still > e
	k.Check("tolerance", !r4 && !r5, "ToleranceXY(%g): one vertex moved by 3e accepted (%v/%v)\n a=%s\n b=%s", e, r4, r5, base, big)
	k.Check("tolerance", r4 == r5 && r2 == r3, "ToleranceXY(%g) not symmetric", e)
	// with IgnoreOrder as well
	sh := model.ToGeom(shuffle(k.Rng, small))
	var r6 bool
	if !k.Lib("nopanic", func() { r6 = geom.ExactEquals(g, sh, geom.IgnoreOrder, geom.ToleranceXY(2*e)) }) {
		if ringsSimpleAfterPerturbation(base, small) {
			k.Check("tolerance", r6, "IgnoreOrder+ToleranceXY(%g): shuffled perturbed copy not accepted\n a=%s", 2*e, base)
		} else {
			k.Skip("tolerance")
		}
	}
}

// The rotation of a ring is only ignored for simple closed curves; after a
// perturbation closure is generally lost, so only judge when no curve of the
// base is a ring (then shuffle never rotates).
func ringsSimpleAfterPerturbation(base, _ model.Tree) bool {
	ok := true
	var rec func(n model.Tree)
	rec = func(n model.Tree) {
		if n.Type == geom.TypeLineString && len(n.Coords) > 0 && isRingCurve(n.Coords, n.CT.Dimension()) {
			ok = false
		}
		if n.Type == geom.TypePolygon && len(n.Kids) > 0 {
			ok = false
		}
		for _, c := range n.Kids {
			rec(c)
		}
	}
	rec(base)
	return ok
}

func one(k *run.K) {
	base := baseTree(k.Rng)
	k.In("base", base.String())
	g := model.ToGeom(base)
	if !model.Equal(treeOf(g), base) {
		k.Skip("vs-wkb")
		return
	}
	// reflexive under every option subset
	var r0, r1, r2, r3 bool
	if !k.Lib("nopanic", func() {
		r0 = geom.ExactEquals(g, g)
		r1 = geom.ExactEquals(g, g, geom.IgnoreOrder)
		r2 = geom.ExactEquals(g, g, geom.ToleranceXY(0))
		r3 = geom.ExactEquals(g, g, geom.IgnoreOrder, geom.ToleranceXY(1))
	}) {
		k.Check("reflexive", r0 && r1 && r2 && r3, "ExactEquals(g,g) = %v/%v/%v/%v for %s", r0, r1, r2, r3, base)
	}
	// signed zeros: the same ordinate +0 in one copy and -0 in the other, in every dimension the
	// coordinate type has (X, Y, Z, M) — equal under every option subset
	{
		hasC := func(n model.Tree, _ *model.Tree) bool { return len(n.Coords) > 0 }
		if ps := nodesOfType(base, hasC); len(ps) > 0 {
			pz, nz := clone(base), clone(base)
			pth := ps[k.Rng.Intn(len(ps))]
			np, nn := at(&pz, pth), at(&nz, pth)
			d := np.CT.Dimension()
			tuple := k.Rng.Intn(len(np.Coords) / d)
			dim := k.Rng.Intn(d)
			if np.Type == geom.TypeLineString && tuple == 0 || tuple == len(np.Coords)/d-1 {
				// keep closed curves closed bit for bit on each side: zero the same ordinate of both ends
				for _, tt := range []int{0, len(np.Coords)/d - 1} {
					if np.Coords[tt*d+dim] == np.Coords[tuple*d+dim] {
						np.Coords[tt*d+dim], nn.Coords[tt*d+dim] = 0, math.Copysign(0, -1)
					}
				}
			}
			np.Coords[tuple*d+dim], nn.Coords[tuple*d+dim] = 0, math.Copysign(0, -1)
			judgePair(k, pz, nz, "sign of a zero ordinate (dimension "+[]string{"X", "Y", "Z/M", "M"}[dim]+")")
		}
	}
	pool := []model.Tree{base}
	for i := 0; i < 6; i++ {
		v, what := variant(k.Rng, base)
		judgePair(k, base, v, what)
		pool = append(pool, v)
	}
	for i := 0; i < 4; i++ {
		s := shuffle(k.Rng, base)
		judgePair(k, base, s, "order-insignificant shuffle")
		pool = append(pool, s)
		v, what := variant(k.Rng, s)
		judgePair(k, base, v, "shuffle + "+what)
		pool = append(pool, v)
	}
	// transitivity on sampled triples of the pool
	for i := 0; i < 12; i++ {
		a, b, c := pool[k.Rng.Intn(len(pool))], pool[k.Rng.Intn(len(pool))], pool[k.Rng.Intn(len(pool))]
		ga, gb, gc := model.ToGeom(a), model.ToGeom(b), model.ToGeom(c)
		for oi, opts := range [][]geom.ExactEqualsOption{nil, {geom.IgnoreOrder}} {
			if oi == 1 && (extremeClosedCurve(a) || extremeClosedCurve(b) || extremeClosedCurve(c)) {
				k.Skip("transitive")
				continue
			}
			var ab, bc, ac bool
			if k.Lib("nopanic", func() {
				ab, bc, ac = geom.ExactEquals(ga, gb, opts...), geom.ExactEquals(gb, gc, opts...), geom.ExactEquals(ga, gc, opts...)
			}) {
				continue
			}
			if ab && bc {
				k.Check("transitive", ac, "a=b and b=c but a!=c (options %d)\n a=%s\n b=%s\n c=%s", len(opts), a, b, c)
			} else {
				k.Skip("transitive")
			}
		}
	}
	tolerance(k, base)
}

// tolMatching: IgnoreOrder + ToleranceXY is a bipartite matching problem (the
// tolerance relation is not transitive, so a greedy assignment is not enough):
// expected = some bijection pairs every member with one within the tolerance.
func tolMatching(k *run.K) {
	r := k.Rng
	n := r.Range(2, 5)
	tol := float64(r.Range(1, 2)) + 0.25
	type pt struct{ x, y float64 }
	mk := func() []pt {
		ps := make([]pt, n)
		for i := range ps {
			ps[i] = pt{float64(r.Range(0, 8)) / 2, float64(r.Range(0, 2)) / 2}
		}
		return ps
	}
	a, b := mk(), mk()
	if r.Bool() { // make b a perturbed permutation of a so that matchings usually exist
		p := r.Perm(n)
		for i := range b {
			b[i] = pt{a[p[i]].x + float64(r.Range(-2, 2))/2, a[p[i]].y}
		}
	}
	within := func(p, q pt) bool { dx, dy := p.x-q.x, p.y-q.y; return dx*dx+dy*dy <= tol*tol }
	// brute force over all bijections
	want := false
	perm := make([]int, n)
	for i := range perm {
		perm[i] = i
	}
	var rec func(i int)
	rec = func(i int) {
		if want {
			return
		}
		if i == n {
			want = true
			return
		}
		for j := i; j < n; j++ {
			perm[i], perm[j] = perm[j], perm[i]
			if within(a[i], b[perm[i]]) {
				rec(i + 1)
			}
			perm[i], perm[j] = perm[j], perm[i]
		}
	}
	rec(0)
	build := func(ps []pt, kind int) geom.Geometry {
		switch kind {
		case 0:
			fs := []float64{}
			for _, p := range ps {
				fs = append(fs, p.x, p.y)
			}
			return geom.NewMultiPointXY(fs...).AsGeometry()
		case 1:
			var ms []geom.Geometry
			for _, p := range ps {
				ms = append(ms, geom.NewPointXY(p.x, p.y).AsGeometry())
			}
			return geom.NewGeometryCollection(ms).AsGeometry()
		case 2:
			var ls []geom.LineString
			for _, p := range ps {
				ls = append(ls, geom.NewLineStringXY(p.x, p.y, p.x, p.y+20))
			}
			return geom.NewMultiLineString(ls).AsGeometry()
		default:
			// rings: squares of side 20 (any rotated or reversed alignment of two of them has a vertex
			// pair ~20 apart, far above the tolerance, so only the identity alignment can match).
			sq := func(p pt) geom.LineString {
				return geom.NewLineStringXY(p.x, p.y, p.x+20, p.y, p.x+20, p.y+20, p.x, p.y+20, p.x, p.y)
			}
			if kind == 4 || kind == 6 { // MultiPolygon members
				var polys []geom.Polygon
				for _, p := range ps {
					polys = append(polys, geom.NewPolygon([]geom.LineString{sq(p)}))
				}
				mp := geom.NewMultiPolygon(polys).AsGeometry()
				if kind == 6 {
					return geom.NewGeometryCollection([]geom.Geometry{mp}).AsGeometry()
				}
				return mp
			}
			// holes of one polygon (ExactEquals is structural: validity is not required)
			rings := []geom.LineString{geom.NewLineStringXY(-100, -100, 200, -100, 200, 200, -100, 200, -100, -100)}
			for _, p := range ps {
				rings = append(rings, sq(p))
			}
			poly := geom.NewPolygon(rings)
			if kind == 5 {
				return geom.NewGeometryCollection([]geom.Geometry{geom.NewMultiPolygon([]geom.Polygon{poly}).AsGeometry()}).AsGeometry()
			}
			return poly.AsGeometry()
		}
	}
	kind := r.Intn(7)
	ga, gb := build(a, kind), build(b, kind)
	k.In("a", ga.AsText())
	k.In("b", gb.AsText())
	k.In("tolerance", fmt.Sprint(tol))
	k.Nontrivial(ga.AsText() + gb.AsText() + fmt.Sprint(tol))
	var got, gotR bool
	if k.Lib("nopanic", func() {
		got = geom.ExactEquals(ga, gb, geom.IgnoreOrder, geom.ToleranceXY(tol))
		gotR = geom.ExactEquals(gb, ga, geom.ToleranceXY(tol), geom.IgnoreOrder)
	}) {
		return
	}
	k.Check("tolerance", got == want && gotR == want, "ExactEquals(a,b,IgnoreOrder,ToleranceXY(%g)) = %v/%v, but a bijection within the tolerance exists=%v\n a=%s\n b=%s", tol, got, gotR, want, ga.AsText(), gb.AsText())
}

func runAll(c *run.Ctx) {
	for i := 0; i < c.N(6000, 100000); i++ {
		c.Case("tol-matching", i, tolMatching)
	}
	for i := 0; i < c.N(12000, 120000); i++ {
		c.Case("family", i, one)
	}
}
