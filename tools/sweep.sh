#!/bin/bash
# tools/sweep.sh <tier> <seed>... — runs every claimed check at the given seeds; prints one line per (seed,id).
# Evidence files are restored to the committed ones afterwards when run inside a git checkout (use for silence sweeps).
TIER=$1; shift
cd "$(dirname "$0")/.."; mkdir -p work
IDS=$(python3 -c "import json;print(' '.join(c['property_id'] for c in json.load(open('MANIFEST.json'))['checks']))")
for seed in "$@"; do
  for id in $IDS; do
    s=$(date +%s)
    VERIF_SEED=$seed ./check $id $TIER > work/sweep_${id}_${seed}.log 2>&1; rc=$?
    e=$(( $(date +%s) - s ))
    echo "seed=$seed $id exit=$rc ${e}s $(grep -cE '^VIOLATION' work/sweep_${id}_${seed}.log) violations $(grep -E '^(INCONCLUSIVE|KNOWN-FINDING)' work/sweep_${id}_${seed}.log | head -2 | cut -c1-200)"
  done
done
