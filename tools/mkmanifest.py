#!/usr/bin/env python3
"""Regenerates /verif/MANIFEST.json from the table below (run after adding a property package)."""
import json, subprocess, os
ROOT = os.path.dirname(os.path.dirname(os.path.abspath(__file__)))
props = [json.loads(l) for l in open(os.path.join(ROOT, 'properties.jsonl'))]

# id -> (technique, level text, level note, design ref)
CLAIMED = {
 'C11': ("reference-model monitor (linear scan) over recorded callback sequences + structural invariant hook at the quiescent point after BulkLoad",
         "Exploration by runtime monitoring: every size 0..40 x 8 layouts exhaustively and sampled sizes at fan-out boundaries to 5000 are bulk-loaded; every search's callback sequence is compared with a linear scan, Stop/wrapped Stop/error are injected at every visit position for n<=40, and the hook rtree.VerifCheck walks the tree after every load. Holds for the executions observed, not a proof.",
         "trusts the harness's linear scan and exact quarter-integer arithmetic; sizes >40 are sampled", "DESIGN.md §3 C11"),
}
CLAIMED['C02'] = ("reference-model monitor: exact rational slab-arrangement DE-9IM oracle with definitional locate, compared character by character with Relate and the nine predicates on generated operand pairs",
  "Exploration by runtime monitoring: thousands of generated ordered operand pairs per run (all 8x8 operand kinds incl. typed empties and oracle-certified disjoint collections; dense lattices, large lattice, general-position floats) are passed to the real Relate/predicates and judged against an independent exact-arithmetic DE-9IM; the evidence lists the distinct matrices observed. Holds for the pairs observed.",
  "trusts verif/exact (self-checked: transpose, arrangement consistency) and the harness's pattern table typed from the function documentation", "DESIGN.md §3 C02")
CLAIMED['C01'] = ("reference-model monitor: exact rational arrangement oracle judging every result at every arrangement cell (membership, exact area, lineal remainder, isolated points), shape rules, Boolean laws through the same oracle, plus the overlay invariant hook",
  "Exploration by runtime monitoring: generated operand pairs of all 8x8 operand kinds (seven types + typed empties, collections with overlapping members), targeted collection families and UnionMany lists on dense lattices, the large lattice and general-position floats are run through the six entry points; each result is judged against the exact Boolean decomposition of the joint arrangement and the hook VerifOverlayInvariants checks the half-edge structure of each overlay. Holds for the executions observed.",
  "trusts verif/exact (self-consistency checked per case) and the fixed tolerances tau=1e-9*M / sep>=1e-7*M stated in DESIGN.md; near-degenerate inputs below the clearance bound are excluded and counted", "DESIGN.md §3 C01")
CLAIMED['C19'] = ("runtime monitor over Forward/Reverse executions: inverse round trip within 1e-9 deg and closed-form character oracles (area element, conformality, equidistance, true scale) evaluated on central-difference Jacobians; NaN-failing comparisons",
  "Exploration by runtime monitoring: every projection is configured over a graticule of centres/origins, 15 standard-parallel pairs in both hemispheres and orders, two radii, zoom 0..30, and evaluated on graticule and PRNG points of its one-to-one domain plus the centre itself; each evaluation is judged by the inverse and by the local character its documentation states. Holds for the configurations and points observed.",
  "finite-difference Jacobians (h=1e-6 deg, tolerance 1e-5 relative); domain restricted exactly as the property's quantifier states", "DESIGN.md §3 C19")
CLAIMED['C12'] = ("reference-model monitor: direct min/max scan over control points for Envelope(), closed-interval arithmetic for every Envelope method on an exhaustively enumerated lattice of envelopes",
  "Exploration by runtime monitoring: generated valid geometries of every type x coordinate type with empty members give Envelope() checked for tightness, invariances and joins; all 442 lattice envelopes (ordinates in {0,1,2,3,5,8} + empty) are enumerated, every ordered pair and sampled triples are run through every exported Envelope method and compared with interval arithmetic (exact on small integers). The pair space is enumerated completely; geometries are sampled.",
  "expected values computed in float64 on small integers (exact); geometries restricted to valid ones", "DESIGN.md §3 C12")
CLAIMED['C13'] = ("reference-model monitor: exact integer orientation tests on the hull, brute-force exact enumeration of all hull-edge-aligned rectangles, permutation/duplication metamorphic monitor",
  "Exploration by runtime monitoring: point multisets of 1..200 lattice points with duplicates and collinear runs (all permutations for n<=5, sampled beyond) and generated geometries of every type are passed to ConvexHull and the rotated rectangle functions; results are judged by exact type/convexity/cover/subset/idempotence tests and against the exact minimum over all edge-aligned rectangles.",
  "lattice inputs only for exact claims; general-position inputs judged on covering within 1e-9*M", "DESIGN.md §3 C13")
CLAIMED['C14'] = ("reference-model monitor: exact rational shoelace area/centroid and 200-bit length evaluation compared with Area/Length/Centroid, plus metamorphic invariance monitors over pairs of calls",
  "Exploration by runtime monitoring: thousands of generated valid geometries per run (every type x coordinate type, holes, empty members, mixed collections; lattice and general-position) are measured by the library and by exact arithmetic; invariances under ring rotation, Reverse, ForceCW/CCW, permutation, Z/M changes, additivity, translation and affine transform are checked on the same executions.",
  "tolerance 1e-9*M (M^2 for area) from the property statement; NaN fails every comparison", "DESIGN.md §3 C14")
CLAIMED['C09'] = ("reference-model monitor: exact arrangement-based intersects and exact rational minimum distance compared with Intersects/Distance, cross-implementation consistency with Relate-derived Disjoint, Intersection and envelope distance",
  "Exploration by runtime monitoring: generated operand pairs over all 8x8 operand kinds (half of them separated by a lattice translation so that Distance takes its best-first search path), clustered collections and triples are evaluated by the library and by the exact oracle; every call's symmetry, definedness, zero-iff-intersects, envelope bound and triangle inequality are checked on the same executions.",
  "distance tolerance 1e-13*max(1,M); near-degenerate pairs below the clearance bound excluded and counted", "DESIGN.md §3 C09")
CLAIMED['C15'] = ("reference-model monitor: Boundary compared as a point set with the exact locate()=B set on every arrangement cell; PointOnSurface located exactly; structural monitors for collections and dimension",
  "Exploration by runtime monitoring: generated valid geometries of every type plus targeted families (narrow comb polygons, rectangles whose envelope-centre row hits a vertex with holes above/below, multilinestring junctions) are passed to Boundary, PointOnSurface, Dimension and IsEmpty, and each result is judged by the exact interior/boundary model.",
  "exact locate per OGC mod-2 rule; collections judged structurally", "DESIGN.md §3 C15")
CLAIMED['C04'] = ("reference-model monitor: neutral tree model + independent WKB reader/writer compared bitwise with AsBinary/UnmarshalWKB/Scan/Value over generated trees and every per-element byte-order assignment; thorough tier repeats under checkptr and AddressSanitizer builds in sacrificial workers",
  "Exploration by runtime monitoring: thousands of arbitrary geometry trees per run (7 types x 4 coordinate types, empty members at every position, nesting <= 4, all float64 classes incl. NaN/Inf in Z/M) are encoded by the library and by an independent writer, decoded under all 2^k byte-order assignments (k<=6; sampled beyond), with trailing bytes, prefixes, and through the Value/Scan adapters of every Go type. Sanitizer passes report 'no report on N executions', not memory safety.",
  "trusts verif/model and verif/codec (WKB written from the ISO layout); Scan round trips only for oracle-valid geometries", "DESIGN.md §3 C04")
CLAIMED['C05'] = ("reference-model monitor: tree model round trip, strict OGC-BNF parser on the library's text, shortest-numeral check, independent printer producing token-level re-spellings, trailing-token and WKT-vs-WKB monitors",
  "Exploration by runtime monitoring: thousands of arbitrary finite-ordinate trees per run plus the zero value of every Go type are rendered by AsText/AppendWKT and re-parsed; the text is judged by an independent strict grammar and 16 re-spellings per tree are fed back to UnmarshalWKT. Holds for the trees observed.",
  "exact decimal conversion via math/big; only the geometry-type keyword's case is varied (as the statement says)", "DESIGN.md §3 C05")
CLAIMED['C06'] = ("runtime monitor: encoding/json as independent syntax/shape referee on MarshalJSON output, harness model of the format's forced losses for the round trip, concrete-type decode matrix, grammar-generated documents with a decision model, Feature/FeatureCollection round trips compared as encoding/json values",
  "Exploration by runtime monitoring: thousands of valid geometries per run (7 types x 4 coordinate types, empty members, nested collections, all finite float64 classes) are marshalled, re-parsed generically for RFC 7946 shape, decoded by UnmarshalGeoJSON/json.Unmarshal into Geometry and every concrete type and compared with the image under the forced losses; grammar documents (positions of length 0..5, mixed dimensions, unknown types, nulls) and generated features are decoded and judged by the harness's model.",
  "forced-loss model is the harness's reading of the statement; documents with nulls/missing members are judged only for absence of panics", "DESIGN.md §3 C06")
CLAIMED['C07'] = ("reference-model monitor: exact rational snapping oracle for decode(encode(g,p)), independent varint-level TWKB reader for size/bbox/id-list headers, header-only readers vs full decode, closed-world error monitor on MarshalTWKB",
  "Exploration by runtime monitoring: thousands of valid geometries per run (7 types x 4 coordinate types, empty members, nested collections, ordinates k/10^q) are encoded under 8-16 draws of precisions (-8..7 / 0..7) and all 16 option subsets; the bytes are decoded by the library and by an independent reader and every ordinate is compared with the exactly rounded value; rejection families drive out-of-range precisions and mismatched ID lists.",
  "half-way rounding cases within the stated margin accept either neighbour; rings that collapse under coarse precision are skipped and counted; for a MultiPoint that drops empty Points the IDs of the surviving members are expected back (or a refusal)", "DESIGN.md §3 C07")
CLAIMED['C08'] = ("process-level runtime monitoring: every decoder entry point is driven with enumerated corruptions inside sacrificial worker processes (RLIMIT_AS ceiling, journal of the input before each call); monitors: recovered panics, worker death attributed by the driver, cumulative heap-allocation delta per call, Validate() of what is returned, re-encoding; thorough tier adds an AddressSanitizer build",
  "Fault enumeration by runtime monitoring: for a corpus of valid encodings of every type in WKB/TWKB/WKT/GeoJSON the check enumerates every truncation, every byte value at header/type/count/flag positions (field maps from independent codecs), boundary values elsewhere, every 4-byte count and varint overwritten with the extreme values, splices, PRNG byte strings up to 64 KiB, token mutations and deep nesting (about 0.86 M inputs / 7 M decoder calls in quick). Holds for the inputs enumerated.",
  "allocation bound 64 MiB + 8192*len fixed in advance; time is not judged; the address-space limit is 8 GiB (not combinable with the ASan variant, where the allocation monitor is the backstop)", "DESIGN.md §3 C08")
CLAIMED['C18'] = ("reference-model monitor: WKB byte equality (mod -0) from the independent writer for the option-free relation, harness canonical form for IgnoreOrder, metamorphic monitors (symmetry, reflexivity, transitivity on sampled triples, tolerance perturbations) over one-difference families",
  "Exploration by runtime monitoring: for thousands of base trees per run (arbitrary finite trees with magnitudes from subnormal to 1e300 and valid lattice geometries with Z/M) a family of one-difference variants and order-insignificant shuffles is generated; ExactEquals with every option subset and both argument orders is compared with the two reference relations.",
  "closed curves with ordinates of extreme magnitude are judged on the option-free relation only (whether they are simple, hence rings, is outside C03's domain)", "DESIGN.md §3 C18")
CLAIMED['C16'] = ("invariant monitor over a tree walk: coordinate type of every node reachable through accessors, and the (XY -> Z,M) association of uniquely tagged vertices, observed before and after every operation in the statement's list; harness model of ForceCoordinatesType and of constructor reduction",
  "Exploration by runtime monitoring: thousands of trees per run (7 types x 4 coordinate types, empty members at every position, typed empties, valid lattice geometries) with unique Z/M tags are passed through ForceCoordinatesType/Force2D (every target), Reverse, ForceCW/CCW, TransformXY, SnapToGrid, Densify, Dump, DumpCoordinates, DumpRings, AsMulti*, WKB/WKT round trips and the XY-only operations; mixed-type constructions of every container are compared with the expected reduction.",
  "tuples compared as multisets (subsequence for Densify); XY-only set operations only on oracle-valid inputs", "DESIGN.md §3 C16")
CLAIMED['C17'] = ("contract monitors with exact arithmetic: subsequence/on-segment/gap checks for Densify, subsequence-embedding + exact distance-to-line for Simplify, 200-bit arc-length oracle for InterpolatePoint/InterpolateEvenlySpacedPoints, sweep of SnapToGrid over decimal places -320..320 x ordinate classes, involution/orientation monitors",
  "Exploration by runtime monitoring: thousands of valid lineal/areal geometries per run (all coordinate types, repeated vertices at start/middle/end, zero-length leading/trailing segments; lattice and general position) under swept parameters (d, t, f incl. breakpoints +-1 ulp, n 0..50) plus the SnapToGrid sweep; each result is judged by the operation's contract as stated.",
  "tolerances 1e-9*M / (1+1e-12) fixed in DESIGN.md; Simplify accepts any embedding that satisfies the bound", "DESIGN.md §3 C17")
CLAIMED['C20'] = ("runtime monitoring by reflection: every exported method of the ten value types (enumerated at run time) and a table of free functions are invoked over an emptiness pool under recover(); neutral-answer monitors; digest comparison zero Geometry vs empty collection; metamorphic transparency monitor for inserted empty members (predicates, matrix, measures bitwise; set-operation point sets through the exact oracle)",
  "Exploration by runtime monitoring: ~340 distinct receiver.method pairs x pool arguments (about 60k method calls), 24 free functions over all ordered pairs of a 49-member pool (about 60k calls), neutral answers for every pool empty against non-empty partners, and thousands of non-empty geometries per run with an empty member of every admissible type inserted at every position.",
  "documented panics are an explicit table (MustAs* on another type, index accessors only with in-range indices); Dimension() itself is not compared under insertion", "DESIGN.md §3 C20")
CLAIMED['C10'] = ("constructor/accessor aliasing monitors (caller slices passed to constructors and slices returned by accessors are overwritten and both sides re-observed); Go race detector (-race build, reports counted and deduplicated from GORACE log files) over 2/4/8/16 goroutines sharing operands without synchronisation; plus purity/determinism monitors: operand snapshots around every call, 24-64 in-process repetitions per call (fresh map iteration orders), digest tables recomputed in separate worker processes (different GOMAXPROCS/sharding) and compared by the driver",
  "Exploration by runtime monitoring: an operation table of the public read API (40 geometry operations + R-tree searches) runs over a pool of shared valid operands (incl. shapes whose result rings/lines tie on their first vertex) - about 1.9k calls x 25-65 repetitions, every digest recomputed in a second set of processes, and about 90k concurrent calls under the race detector with the measured number of call pairs that overlapped on the same operand reported in the evidence. No race report and identical digests on everything observed.",
  "races are only visible on paths the table drives; repetition samples map orders, it does not enumerate them", "DESIGN.md §3 C10")
CLAIMED['C03'] = ("reference-model monitor: definitional exact-arithmetic validity/simplicity oracle (two independent connectedness criteria) compared with Validate/IsSimple/IsRing/IsClosed and with the validating decoders; metamorphic monitor over every representation (ring rotation, direction, hole/member permutation, translation, reflection)",
  "Exploration by runtime monitoring with exhaustive sub-spaces: tens of thousands of unvalidated lattice candidates per run with vertex-sharing bias and targeted families (hole-in-hole sharing a vertex, touch chains, repeated vertices) under 8-24 representations each; every closed 3- and 4-vertex ring of the 3x3 grid; pairs of lattice triangles of the 4x4 grid as shell+hole and as members; pairs of triangular holes in a fixed shell under all 36 start/direction representations (strided in quick, complete in thorough); NaN/Inf at every ordinate position.",
  "lattice inputs only (both sides exact); cases where the oracle's two connectedness criteria disagree are skipped and counted (none observed)", "DESIGN.md §3 C03")
CONCRETE = ['C03','C04','C05','C06','C12','C13','C14','C15','C16','C17']
for _i in CONCRETE:
    _t = CLAIMED[_i]
    CLAIMED[_i] = (_t[0] + '; differential monitor between the Geometry method and the concrete type\'s method of the same name (second entry point)', _t[1], _t[2], _t[3])
REASONS = {}
hooks_commits = subprocess.run(['git','-C','/repo','log','--format=%h %s'],capture_output=True,text=True).stdout.splitlines()
hook_commits = [l.split()[0] for l in hooks_commits if l.split(' ',1)[1].startswith('verif hook')]
checks=[]; na=[]
for p in props:
    i=p['id']
    if i in CLAIMED:
        tech, text, note, ref = CLAIMED[i]
        checks.append({
          "property_id": i,
          "quick_cmd": "./check %s quick" % i,
          "thorough_cmd": "./check %s thorough" % i,
          "evidence_file": "/verif/evidence/%s.json" % i,
          "replay_cmd_template": "./check --replay {path}",
          "engine": "vmon",
          "level_claimed": {"category": ("fault_enumeration" if i == "C08" else "exploration"), "text": text, "design_ref": ref},
          "level_note": note,
          "technique": tech,
        })
    else:
        na.append({"property_id": i, "reason": REASONS.get(i, "monitor for this property is not built yet in this round (runtime monitoring applies; see DESIGN.md §3); not claimed until its check exists and is silent on the unchanged tree")})
m = {
 "version": 1,
 "setup_cmd": "./setup.sh",
 "hooks": {
   "guard": "verif",
   "enable": "go build -tags verif (the harness module /verif/harness replaces github.com/peterstace/simplefeatures with /repo and is built with -tags verif by ./check)",
   "baseline_off_cmd": "cd /repo && GOFLAGS=-mod=mod GOPROXY=off GOSUMDB=off GOTOOLCHAIN=local go test -json -vet=off -count=1 -timeout 25m ./...",
   "source_commits": hook_commits,
   "add_only": True,
 },
 "engines": [{"name": "vmon", "path": "/verif/harness", "serves_properties": [c['property_id'] for c in checks],
              "kind_free_text": "Go runtime-monitoring harness: deterministic PRNG workloads run against the real library in sacrificial sharded worker processes; independent oracles (exact rational arithmetic, independent codecs, linear scans), invariant hooks behind build tag verif, race detector / sanitizer builds; driver owns verdicts, evidence and known-finding matching"}],
 "checks": checks,
 "notes": "Exit 0 held / 1 VIOLATION / 2 INCONCLUSIVE (watchdog, hook never reached, too few events). VERIF_SEED selects the deterministic case list. Known findings: /verif/known_findings.txt. Seeded breaking changes used to validate the monitors: /verif/seeded/.",
 "not_applicable": na,
}
json.dump(m, open(os.path.join(ROOT,'MANIFEST.json'),'w'), indent=1)
print("claimed", len(checks), "not claimed", len(na))
