#!/usr/bin/env python3
"""Automatic mutation sampling: measures how sensitive each check is to small source changes in the files its
property is anchored in, and lists the survivors for triage.

For each selected property: sample N single-token mutants (comparison/boolean/arithmetic operator flips,
constant nudges, break/continue swaps, negation removal, statement deletion) from the property's anchor files
(properties.jsonl: anchors.files), on a scratch worktree of /repo (never /repo itself). A mutant that does not
compile or that the repository's own tests (geom, rtree, carto) kill is discarded; the rest are run through
`./check <id> quick` via VERIF_REPO. Exit 1 = killed by the check, 0 = survivor, 2 = inconclusive.

usage: tools/automut.py [-n PER_PROPERTY] [-j WORKERS] [-s SEED] [ids...]
results: mutants/auto/<id>.json (one record per mutant) and a summary on stdout
"""
import sys, os, re, json, random, subprocess, threading, queue, argparse, hashlib

SEED = 1
ROOT = os.path.dirname(os.path.dirname(os.path.abspath(__file__)))
env = dict(os.environ, GOFLAGS="-mod=mod", GOPROXY="off", GOSUMDB="off", GOTOOLCHAIN="local")

OPS = [
    (r'<=', '<'), (r'>=', '>'), (r'(?<![<>=!\-])<(?![<=\-])', '<='), (r'(?<![<>=!\-])>(?![>=])', '>='),
    (r'==', '!='), (r'!=', '=='), (r'&&', '||'), (r'\|\|', '&&'),
    (r'\+ 1\b', '+ 0'), (r'- 1\b', '- 0'), (r'\+1\b', '+0'), (r'(?<=[\w\)\]])-1\b', '-0'),
    (r'\bcontinue\b', 'break'), (r'\bbreak\b', 'continue'),
    (r'\btrue\b', 'false'), (r'\bfalse\b', 'true'),
    (r'!(?=[\w\(])', ''),
    (r' \+ ', ' - '), (r' - ', ' + '), (r' \* ', ' / '), (r' / ', ' * '),
    (r'\[0\]', '[1]'), (r'\[1\]', '[0]'),
    (r'\b0\b', '1'), (r'\b1\b', '2'), (r'\b2\b', '3'),
    (r'\+\+', '--'), (r'\+=', '-='), (r'-=', '+='),
    (r'\bMin\b', 'Max'), (r'\bMax\b', 'Min'), (r'\bmin\(', 'max('), (r'\bmax\(', 'min('),
    (r'\.X\b', '.Y'), (r'\.Y\b', '.X'),
]
GUARD = re.compile(r'^\s*((?:\} else )?if )([^;{]*;\s*)?(.+) \{$')
OPSEL = 'token'
DELETE = re.compile(r'^\s+(?:[\w\.\[\]\*]+(?:, [\w\.\[\]\*]+)* (?:=|\+=|-=|\|=) .*[^{,(]|[\w\.]+\([^{]*\)|return .*)$')


def code_part(line):
    """Blank out string/rune literals and strip the trailing comment so that offsets still match."""
    out, i, n = [], 0, len(line)
    while i < n:
        c = line[i]
        if c == '/' and i + 1 < n and line[i + 1] == '/':
            break
        if c in '"`\'':
            j = i + 1
            while j < n and line[j] != c:
                if line[j] == '\\' and c != '`':
                    j += 1
                j += 1
            out.append(' ' * (min(j, n - 1) - i + 1))
            i = j + 1
            continue
        out.append(c)
        i += 1
    return ''.join(out)


def mutants_of(path, text):
    res = []
    in_block = False
    for ln, line in enumerate(text.split('\n')):
        s = line.strip()
        if in_block:
            if '*/' in s:
                in_block = False
            continue
        if s.startswith('/*'):
            in_block = '*/' not in s
            continue
        if not s or s.startswith('//') or s.startswith('import') or s.startswith('package') or 'panic(' in s:
            continue
        code = code_part(line)
        for oi, (pat, rep) in enumerate(OPS):
            for m in re.finditer(pat, code):
                new = line[:m.start()] + rep + line[m.end():]
                if new != line:
                    res.append((path, ln, 'op%d:%s->%s' % (oi, m.group(0), rep), new))
        gm = GUARD.match(code.rstrip())
        if gm and OPSEL in ('guard', 'all'):
            pre, init, cond = gm.group(1), gm.group(2) or '', gm.group(3)
            raw_cond = line[gm.start(3):gm.end(3)]
            raw_init = line[gm.start(2):gm.end(2)] if gm.group(2) else ''
            res.append((path, ln, 'guard-off', line[:gm.start(1)] + pre + raw_init + 'false && (' + raw_cond + ') {'))
            res.append((path, ln, 'guard-on', line[:gm.start(1)] + pre + raw_init + 'true || (' + raw_cond + ') {'))
        if OPSEL == 'guard':
            res = [r for r in res if r[2].startswith('guard')]
            continue
        if DELETE.match(code.rstrip()) and not s.startswith('return') :
            res.append((path, ln, 'delete', ''))
        elif s.startswith('return ') and s not in ('return nil', 'return false', 'return true'):
            pass
    return res


def sh(cmd, cwd=None, extra=None, timeout=None):
    e = dict(env, **(extra or {}))
    try:
        return subprocess.run(cmd, shell=True, cwd=cwd, capture_output=True, text=True, errors='replace', env=e, timeout=timeout)
    except subprocess.TimeoutExpired as ex:
        class R: pass
        r = R(); r.returncode = 124; r.stdout = (ex.stdout or b'').decode(errors='replace') if isinstance(ex.stdout, bytes) else (ex.stdout or ''); r.stderr = 'timeout'
        return r



COST = {'C19': 1, 'C11': 2, 'C18': 5, 'C03': 6, 'C04': 6, 'C17': 6, 'C05': 7, 'C14': 7, 'C12': 8, 'C13': 8, 'C15': 8, 'C07': 11, 'C16': 12,
        'C06': 13, 'C20': 15, 'C10': 30, 'C09': 40, 'C08': 45, 'C01': 85, 'C02': 120}
FILEPROPS = {}
EXTRA = {'geom/line.go': ['C03', 'C09', 'C02'], 'geom/rtree.go': ['C09', 'C03', 'C01'], 'geom/alg_point_in_ring.go': ['C15', 'C01'],
         'geom/type_sequence.go': ['C03'], 'geom/xy.go': ['C09', 'C13'],
         'geom/type_geometry_collection.go': ['C10'], 'geom/type_multi_line_string.go': ['C10'], 'geom/type_multi_polygon.go': ['C10']}
ALL = False


def check_order(prop, path):
    """the sampled property first, then every other property anchored in (or known to depend on) the file, cheap first"""
    if not FILEPROPS:
        for l in open(os.path.join(ROOT, 'properties.jsonl')):
            p = json.loads(l)
            for f in p['anchors']['files']:
                FILEPROPS.setdefault(f, []).append(p['id'])
    if not ALL:
        return [prop]
    others = [x for x in FILEPROPS.get(path, []) + EXTRA.get(path, []) if x != prop]
    others = sorted(set(others), key=lambda x: COST.get(x, 50))
    return [prop] + others

def worker(wid, q, out, lock):
    wt = '/tmp/automut_%d_wt%d' % (os.getpid(), wid)
    sh('git -C /repo worktree remove --force %s' % wt)
    r = sh('git -C /repo worktree add --detach %s HEAD' % wt)
    if r.returncode != 0:
        print('worktree failed', r.stderr); return
    while True:
        try:
            prop, (path, ln, op, new) = q.get_nowait()
        except queue.Empty:
            break
        full = os.path.join(wt, path)
        orig = open(full).read()
        lines = orig.split('\n')
        rec = {'prop': prop, 'file': path, 'line': ln + 1, 'op': op, 'old': lines[ln].strip(), 'new': new.strip()}
        lines[ln] = new
        open(full, 'w').write('\n'.join(lines))
        try:
            b = sh('go build ./geom/ ./rtree/ ./carto/', cwd=wt)
            if b.returncode != 0:
                rec['status'] = 'no-compile'
            else:
                t = sh('go test -vet=off -count=1 -timeout 10m ./geom/ ./rtree/ ./carto/ 2>&1 | tail -5', cwd=wt, timeout=900)
                if 'FAIL' in t.stdout or 'panic' in t.stdout or t.returncode == 124:
                    rec['status'] = 'killed-by-suite'
                else:
                    rec['checks'] = {}
                    rec['status'] = 'SURVIVED'
                    for cp in check_order(prop, path):
                        c = sh('./check %s quick' % cp, cwd=ROOT, timeout=3600,
                               extra={'VERIF_REPO': wt, 'VERIF_INSTANCE': 'am%d_%d' % (os.getpid(), wid), 'VERIF_EVIDENCE_DIR': '/tmp/automut_ev%d_%d' % (os.getpid(), wid)})
                        viol = [l for l in c.stdout.splitlines() if l.startswith('VIOLATION')]
                        mons = sorted(set(l.split('monitor=')[1].split()[0] for l in viol if 'monitor=' in l))
                        rec['checks'][cp] = {'exit': c.returncode, 'monitors': mons}
                        if c.returncode == 1:
                            rec['status'] = 'killed-by-check'
                            rec['killed_by'] = cp
                            rec['monitors'] = mons
                            break
                        if c.returncode != 0:
                            rec['status'] = 'inconclusive'
                            rec['tail'] = c.stdout[-400:]
                            break
        finally:
            open(full, 'w').write(orig)
        with lock:
            out.setdefault(prop, []).append(rec)
            print('%s %-16s %s:%d %s | %s %s' % (prop, rec['status'], path, ln + 1, op, rec.get('killed_by', ''), ','.join(rec.get('monitors', [])[:4])), flush=True)
            os.makedirs(os.path.join(ROOT, 'mutants', 'auto'), exist_ok=True)
            json.dump(out[prop], open(os.path.join(ROOT, 'mutants', 'auto', '%s.s%d.json' % (prop, SEED)), 'w'), indent=1)
    sh('git -C /repo worktree remove --force %s' % wt)
    sh('rm -rf /tmp/automut_ev%d_%d' % (os.getpid(), wid))


def main():
    ap = argparse.ArgumentParser()
    ap.add_argument('-n', type=int, default=40)
    ap.add_argument('-j', type=int, default=4)
    ap.add_argument('-s', type=int, default=1)
    ap.add_argument('ids', nargs='*')
    ap.add_argument('--all', action='store_true', help='run every property anchored in the mutated file (stop at the first kill), not only the sampled one')
    ap.add_argument('--recheck', help='JSON result file(s) (glob): re-run the SURVIVED mutants recorded there with --all')
    ap.add_argument('--ops', default='token', help='token (default) | guard (if-conditions forced false/true) | all')
    ap.add_argument('--one', help='file:line — apply one given mutant instead of sampling (with --new and ids = checks to run)')
    ap.add_argument('--new', help='replacement text of that line (leading whitespace is kept from the original)')
    global SEED, ALL, OPSEL
    a = ap.parse_args()
    OPSEL = a.ops
    ALL = a.all or bool(a.recheck)
    if a.recheck:
        import glob
        q = queue.Queue()
        seen = set()
        for f in sorted(glob.glob(a.recheck)):
            for r in json.load(open(f)):
                key = (r['file'], r['line'], r['new'])
                if r['status'] != 'SURVIVED' or key in seen:
                    continue
                seen.add(key)
                src = open(os.path.join('/repo', r['file'])).read().split('\n')[r['line'] - 1]
                if src.strip() != r['old']:
                    print('stale record', r['file'], r['line']); continue
                indent = src[:len(src) - len(src.lstrip())]
                q.put((r['prop'], (r['file'], r['line'] - 1, r['op'], indent + r['new'] if r['new'] else '')))
        SEED = 900 + a.s
        out, lock = {}, threading.Lock()
        ts = [threading.Thread(target=worker, args=(i, q, out, lock)) for i in range(a.j)]
        for t in ts: t.start()
        for t in ts: t.join()
        return
    if a.one:
        f, ln = a.one.rsplit(':', 1)
        ln = int(ln) - 1
        orig = open(os.path.join('/repo', f)).read().split('\n')[ln]
        indent = orig[:len(orig) - len(orig.lstrip())]
        q = queue.Queue()
        for pid in a.ids:
            q.put((pid, (f, ln, 'given', indent + a.new if a.new else '')))
        out, lock = {}, threading.Lock()
        SEED = 0
        ts = [threading.Thread(target=worker, args=(i, q, out, lock)) for i in range(min(a.j, len(a.ids)))]
        for t in ts: t.start()
        for t in ts: t.join()
        return
    SEED = a.s
    props = [json.loads(l) for l in open(os.path.join(ROOT, 'properties.jsonl'))]
    q = queue.Queue()
    for p in props:
        if a.ids and p['id'] not in a.ids:
            continue
        allm = []
        for f in p['anchors']['files']:
            full = os.path.join('/repo', f)
            if not os.path.exists(full) or f.endswith('_test.go'):
                continue
            allm += mutants_of(f, open(full).read())
        rnd = random.Random(int(hashlib.sha256(('%d:%s' % (a.s, p['id'])).encode()).hexdigest()[:12], 16))
        rnd.shuffle(allm)
        for m in allm[:a.n]:
            q.put((p['id'], m))
        print('%s: %d candidate mutants, %d sampled' % (p['id'], len(allm), min(a.n, len(allm))), flush=True)
    out, lock = {}, threading.Lock()
    # keep earlier results of other seeds
    ts = [threading.Thread(target=worker, args=(i, q, out, lock)) for i in range(a.j)]
    for t in ts: t.start()
    for t in ts: t.join()
    for prop, recs in sorted(out.items()):
        cnt = {}
        for r in recs: cnt[r['status']] = cnt.get(r['status'], 0) + 1
        print(prop, cnt)


if __name__ == '__main__':
    main()
