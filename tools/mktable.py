#!/usr/bin/env python3
"""Prints the per-property table of DESIGN.md section 8.2 from the current evidence files."""
import json, os
ROOT = os.path.dirname(os.path.dirname(os.path.abspath(__file__)))
print("| id | cases | distinct non-trivial | monitor events | monitors | wall (s) |")
print("|---|---|---|---|---|---|")
for i in range(1, 21):
    pid = "C%02d" % i
    e = json.load(open(os.path.join(ROOT, "evidence", pid + ".json")))
    c = e["coverage"]
    print("| %s | %s | %s | %s | %d | %.0f |" % (pid, f"{c['evaluations']:,}".replace(",", " "), f"{c['distinct_nontrivial']:,}".replace(",", " "),
          f"{c['monitor_events_total']:,}".replace(",", " "), len(c["monitors"]), e.get("wall_s", 0)))
