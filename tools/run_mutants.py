#!/usr/bin/env python3
"""Runs the one-line mutants of mutants/specs.py against the checks, on a scratch worktree of /repo
(outside /repo and /verif) through VERIF_REPO, so /repo itself is never touched.
usage: tools/run_mutants.py [id-prefix ...]   results -> mutants/results.json"""
import sys, os, subprocess, json, shutil, importlib.util
ROOT = os.path.dirname(os.path.dirname(os.path.abspath(__file__)))
spec = importlib.util.spec_from_file_location("specs", os.path.join(ROOT, "mutants", "specs.py")); m = importlib.util.module_from_spec(spec); spec.loader.exec_module(m)
WT = "/tmp/mutwt"
env = dict(os.environ, GOFLAGS="-mod=mod", GOPROXY="off", GOSUMDB="off", GOTOOLCHAIN="local")
def sh(cmd, **kw): return subprocess.run(cmd, shell=True, capture_output=True, text=True, env=env, **kw)
sel = sys.argv[1:]
resf = os.path.join(ROOT, "mutants", "results.json")
results = json.load(open(resf)) if os.path.exists(resf) else {}
sh(f"git -C /repo worktree remove --force {WT}"); sh(f"git -C /repo worktree add --detach {WT} HEAD")
for (mid, f, old, new, checks) in m.M:
    if sel and not any(mid.startswith(s) for s in sel): continue
    sh("git checkout -- .", cwd=WT)
    p = os.path.join(WT, f); s = open(p).read()
    if s.count(old) != 1:
        results[mid] = {"status": "spec does not apply (count=%d)" % s.count(old)}; print(mid, results[mid]); continue
    open(p, "w").write(s.replace(old, new))
    b = sh("go build ./geom/ ./rtree/ ./carto/ && go vet ./geom/ ./rtree/ ./carto/ 2>&1 | grep -v '^#' | grep -c 'declared and not used\\|imported and not used'", cwd=WT)
    bb = sh("go build ./geom/ ./rtree/ ./carto/", cwd=WT)
    if bb.returncode != 0:
        results[mid] = {"status": "does not compile", "err": bb.stderr[-300:]}; print(mid, results[mid]); continue
    t = sh("go test -vet=off -count=1 ./geom/ ./rtree/ ./carto/ 2>&1 | tail -4", cwd=WT)
    suite_ok = "FAIL" not in t.stdout
    r = {"file": f, "suite_passes": suite_ok, "checks": {}}
    for c in checks:
        e2 = dict(env, VERIF_REPO=WT, VERIF_EVIDENCE_DIR=os.path.join(ROOT, "work", "evidence-scratch"))
        out = subprocess.run(["./check", c, "quick"], cwd=ROOT, capture_output=True, text=True, errors="replace", env=e2)
        viol = [l for l in out.stdout.splitlines() if l.startswith("VIOLATION")]
        mons = sorted(set(l.split("monitor=")[1].split()[0] for l in viol))
        r["checks"][c] = {"exit": out.returncode, "violations": len(viol), "monitors": mons}
    results[mid] = r
    print(mid, "suite_passes=%s" % suite_ok, {c: (v["exit"], v["monitors"][:4]) for c, v in r["checks"].items()}, flush=True)
    json.dump(results, open(resf, "w"), indent=1)
sh(f"git -C /repo worktree remove --force {WT}")
# leave evidence of the unchanged tree in place: re-run is the caller's job
