#!/bin/bash
# tools/seedtest.sh <seeded-id> <property> [tier]  — applies /verif/seeded/<id>/patch.diff to /repo, runs the check, reverts.
set -u
ID=$1; PROP=$2; TIER=${3:-quick}
cd /repo && git diff --quiet || { echo "/repo dirty"; exit 2; }
git -C /repo apply /verif/seeded/$ID/patch.diff || { echo "patch does not apply"; exit 3; }
cd /verif && VERIF_EVIDENCE_DIR=/verif/work/evidence-scratch ./check $PROP $TIER > /tmp/seedtest_$ID.log 2>&1; rc=$?
git -C /repo checkout -- .
echo "seed $ID vs $PROP $TIER: exit $rc"; grep -c '^VIOLATION' /tmp/seedtest_$ID.log; grep '^VIOLATION' /tmp/seedtest_$ID.log | cut -c1-300 | head -3; grep -E "^(INCONCLUSIVE|HELD)" /tmp/seedtest_$ID.log | cut -c1-300 | head -3
