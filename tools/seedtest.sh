#!/bin/bash
# tools/seedtest.sh <seeded-id-or-dir> <property> [tier]
# Runs a check against a seeded breaking change. Default: on a scratch worktree of /repo HEAD (outside /repo and
# /verif) through VERIF_REPO, so /repo is not touched and concurrent runs do not disturb each other.
# With SEED_IN_PLACE=1 it does what the task brief describes instead: git -C /repo apply, run, git checkout.
set -u
ID=$1; PROP=$2; TIER=${3:-quick}
DIR=$ID; [ -d "$DIR" ] || DIR=/verif/seeded/$ID
NAME=$(basename $DIR)_$$
export GOFLAGS=-mod=mod GOPROXY=off GOSUMDB=off GOTOOLCHAIN=local
LOG=/tmp/seedtest_$NAME.log
if [ "${SEED_IN_PLACE:-}" = 1 ]; then
  cd /repo && git diff --quiet || { echo "/repo dirty"; exit 2; }
  git -C /repo apply $DIR/patch.diff || { echo "patch does not apply"; exit 3; }
  (cd /verif && VERIF_EVIDENCE_DIR=/verif/work/evidence-scratch ./check $PROP $TIER > $LOG 2>&1); rc=$?
  git -C /repo checkout -- .
else
  WT=/tmp/seedwt_$NAME
  git -C /repo worktree add --detach $WT HEAD -q || exit 2
  if ! git -C $WT apply $DIR/patch.diff; then echo "patch does not apply"; git -C /repo worktree remove --force $WT; exit 3; fi
  (cd /verif && VERIF_REPO=$WT ./check $PROP $TIER > $LOG 2>&1); rc=$?
  git -C /repo worktree remove --force $WT
fi
echo "seed $(basename $DIR) vs $PROP $TIER: exit $rc  violations=$(grep -c '^VIOLATION' $LOG)"
grep '^VIOLATION' $LOG | cut -c1-260 | head -3; grep -E "^(INCONCLUSIVE|HELD)" $LOG | cut -c1-300 | head -3
exit 0
