#!/bin/bash
# tools/confirm_seed.sh <ID> <dir-with patch.diff+demo_test.go> <pkgdir e.g. geom>
# Confirms in a scratch worktree of /repo HEAD that: the patch applies and builds, the repo suite passes with
# it, the demo fails with it and passes without it. Prints a summary; removes the worktree.
set -u
export GOFLAGS=-mod=mod GOPROXY=off GOSUMDB=off GOTOOLCHAIN=local
ID=$1; SRC=$2; PKG=$3
WT=/tmp/confirm_$ID
git -C /repo worktree remove --force $WT 2>/dev/null
git -C /repo worktree add --detach $WT HEAD -q || exit 2
cd $WT
cp $SRC/demo_test.go $PKG/zz_seed_demo_test.go
echo "== demo WITHOUT patch"; go test -vet=off -count=1 -run 'TestSeeded' ./$PKG/ 2>&1 | tail -3
if ! git apply $SRC/patch.diff; then echo "PATCH DOES NOT APPLY"; cd /; git -C /repo worktree remove --force $WT; exit 3; fi
echo "== demo WITH patch"; go test -vet=off -count=1 -run 'TestSeeded' ./$PKG/ 2>&1 | tail -3
rm $PKG/zz_seed_demo_test.go
echo "== suite WITH patch"; go test -vet=off -count=1 ./geom/... ./rtree/... ./carto/... 2>&1 | tail -4
cd /; git -C /repo worktree remove --force $WT
