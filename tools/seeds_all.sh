#!/bin/bash
# Runs every seeded breaking change against the check of its property (quick tier, or the tier its meta.json
# names) and prints a summary line each.
cd "$(dirname "$0")/.."
for d in seeded/*/; do
  id=$(basename $d)
  prop=$(python3 -c "import json;print(json.load(open('$d/meta.json'))['breaks_property'])")
  tier=$(python3 -c "import json;print(json.load(open('$d/meta.json')).get('tier','quick'))")
  tools/seedtest.sh $id $prop $tier 2>&1 | head -1
done
